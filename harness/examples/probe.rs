use vh::{c04, xplore};
fn main() {
    let a: Vec<String> = std::env::args().collect();
    let shape: u8 = a[1].parse().unwrap();
    let sessions: u8 = a[2].parse().unwrap();
    let readers: u8 = a[3].parse().unwrap();
    let reads: u8 = a[4].parse().unwrap();
    let ymask: u32 = a[5].parse().unwrap();
    let dmax: usize = a[6].parse().unwrap();
    let p = c04::P { shape, sessions, drop_session: false, readers, reads, ymask, warm: true };
    for d in 0..=dmax {
        let t = std::time::Instant::now();
        let mut cfg = xplore::Cfg::new(d);
        cfg.max_failures = 1000000;
        let o = xplore::explore_parallel(&cfg, 16, c04::scenario(p.clone()));
        println!("d={d} execs={} steps={} depth={} cp={} outcomes={} failures={} err={:?} t={:?}", o.stats.executions, o.stats.steps, o.stats.max_depth, o.stats.choice_points, o.stats.outcomes.len(), o.failures.len(), o.machinery_error, t.elapsed());
        if let Some(f) = o.failures.first() { println!("  first: {:?} {} {:?}", f.kind, f.msg, f.schedule); }
    }
}
