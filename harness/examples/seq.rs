use vh::{c09::*, memkv, store, xplore};
use qbice::storage::key_of_set_map::KeyOfSetMap;
fn main() {
    let r = xplore::run_default(|| {
        shuttle::future::block_on(async {
            xplore::exploring(false);
            let st = memkv::new_state(memkv::Grouping::Never, false);
            let mut rig = store::open(st.clone(), 1, 1);
            let mut b = rig.new_batch();
            rig.set.insert(0, 1, &mut b).await;
            rig.submit(b);
            println!("after ins: log={:?}", st.lock().unwrap().log.len());
            let mut b = rig.new_batch();
            rig.set.remove(&0, &1, &mut b).await;
            rig.submit(b);
            println!("after rem: log={:?}", st.lock().unwrap().log.len());
            let v = rig.iter(0).await;
            println!("iter = {v:?} commits={}", st.lock().unwrap().log.len());
            let v = rig.iter(0).await;
            println!("iter again = {v:?}");
            rig.shutdown();
            println!("content {:?}", st.lock().unwrap().content.sets);
        })
    });
    println!("{:?}", r.is_ok());
    let _ = Mode::Set;
}
