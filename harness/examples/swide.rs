use vh::{c09::*, memkv::Grouping, xplore};
fn main() {
    let p = SP { name: "wide", cap: 1, grouping: Grouping::Never, workers: 1 };
    let mut cfg = xplore::Cfg::new(2);
    cfg.max_failures = 3;
    let o = xplore::explore_parallel(&cfg, 16, s_scenario(p.clone()));
    println!("execs={} failures={}", o.stats.executions, o.failures.len());
    for f in o.failures.iter().take(2) { println!("{:?} {} {:?}", f.kind, f.msg, f.schedule); }
    if let Some(f) = o.failures.first() {
        unsafe { std::env::set_var("VH_TRACE", "1"); }
        let o2 = xplore::replay(&f.schedule, s_scenario(p));
        println!("replay failures: {:?}", o2.failures.iter().map(|f| &f.msg).collect::<Vec<_>>());
    }
}
