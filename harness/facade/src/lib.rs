//! The part of the `qbice` facade that the value-universe crate needs (so that
//! it does not depend on — and is not rebuilt with — the engine and storage
//! crates). The derive macros refer to `::qbice::{serialize, stable_hash,
//! stable_type_id}`.
pub use qbice_serialize as serialize;
pub use qbice_serialize::{Decode, Encode};
pub use qbice_stable_hash as stable_hash;
pub use qbice_stable_hash::StableHash;
pub use qbice_stable_type_id as stable_type_id;
pub use qbice_stable_type_id::Identifiable;
