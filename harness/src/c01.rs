//! C01 (incremental == from scratch) and C03 (only justified work is
//! re-executed): explicit-state search over histories of the real engine
//! for every program of a small universe.

use std::sync::{Arc, Mutex};

use serde_json::{Value, json};

use crate::{
    hist::{self, Op},
    pq::{Body, Dep, Node, Program, Style},
    report::{Report, Violation},
    xplore,
};

fn n(style: Style, body: Body) -> Node { Node { style, body } }

/// Hand-picked shapes: one per mechanism named in the property anchors.
pub fn curated() -> Vec<(&'static str, Program)> {
    use Body::*;
    use Dep::*;
    use Style::*;
    let mut v: Vec<(&'static str, Program)> = Vec::new();
    let mut add = |name, nodes: Vec<Node>| v.push((name, Program { nodes }));
    add("chain-cutoff", vec![n(N, Id(In(0))), n(N, Sat(C(0))), n(N, Id(C(1)))]);
    add("cond-dep", vec![n(N, If(In(0), In(1), X(0)))]);
    add("cond-dep-node", vec![
        n(N, Sat(In(1))),
        n(N, If(In(0), C(0), In(1))),
        n(N, Id(C(1))),
    ]);
    add("firewall-absorb", vec![n(F, Sat(In(0))), n(N, Id(C(0)))]);
    add("firewall-proj", vec![
        n(F, Add(In(0), In(1))),
        n(P, Sat(C(0))),
        n(N, Id(C(1))),
    ]);
    add("firewall-2proj-2cons", vec![
        n(F, Add(In(0), In(1))),
        n(P, Sat(C(0))),
        n(P, Id(C(0))),
        n(N, Add(C(1), C(2))),
    ]);
    add("cond-firewall", vec![
        n(F, Id(In(0))),
        n(N, If(In(1), C(0), In(0))),
        n(N, Id(C(1))),
    ]);
    add("two-firewalls-chain", vec![
        n(F, Id(In(0))),
        n(F, Sat(C(0))),
        n(N, Id(C(1))),
    ]);
    add("switch-firewall", vec![
        n(F, Id(In(0))),
        n(F, Sat(In(0))),
        n(N, If(In(1), C(0), C(1))),
        n(N, Id(C(2))),
    ]);
    // two levels above a node whose firewall set changes while its value
    // does not: the middle node is verified clean with a new firewall set
    // (what it records then is what the top node compares against)
    add("cond-firewall-deep", vec![
        n(F, Id(In(0))),
        n(N, If(In(1), C(0), In(0))),
        n(N, Id(C(1))),
        n(N, Id(C(2))),
    ]);
    add("switch-firewall-deep", vec![
        n(F, Id(In(0))),
        n(F, Sat(In(0))),
        n(N, If(In(1), C(0), C(1))),
        n(N, Id(C(2))),
        n(N, Id(C(3))),
    ]);
    add("proj-of-proj", vec![
        n(F, Id(In(0))),
        n(P, Id(C(0))),
        n(P, Sat(C(1))),
        n(N, Add(C(2), In(1))),
    ]);
    add("diamond-join", vec![
        n(N, Id(In(0))),
        n(N, Sat(In(0))),
        n(N, JoinAdd(vec![C(0), C(1), In(1)])),
    ]);
    add("diamond-unord", vec![
        n(N, Id(In(0))),
        n(N, Sat(In(0))),
        n(N, UnordAdd(vec![C(0), C(1), In(1)])),
    ]);
    add("firewall-unord", vec![
        n(F, Id(In(0))),
        n(F, Sat(In(1))),
        n(N, UnordAdd(vec![C(0), C(1)])),
        n(N, Sat(C(2))),
    ]);
    add("external-chain", vec![n(N, Add(X(0), In(0))), n(N, Sat(C(0)))]);
    add("external-firewall", vec![
        n(F, Id(X(0))),
        n(P, Sat(C(0))),
        n(N, Add(C(1), In(0))),
    ]);
    add("const-read", vec![n(N, ConstRead(In(0))), n(N, Add(C(0), In(1)))]);
    add("firewall-through-normal", vec![
        n(F, Sat(In(0))),
        n(N, Add(C(0), In(1))),
        n(N, Id(C(1))),
        n(N, Sat(C(2))),
    ]);
    // partial executors: node 0 panics when its input is 2; node 1 demands
    // it only while the guard in1 is 0 (guard read first)
    add("partial-guarded", vec![n(N, Partial(In(0))), n(N, If(In(1), In(1), C(0)))]);
    add("partial-guarded-firewall", vec![n(F, Partial(In(0))), n(N, If(In(1), In(1), C(0))), n(N, Id(C(1)))]);
    // a projection over a shallow and a deep firewall branch; the consumer
    // of the shallow firewall (node 6) is the last node, so "query all,
    // top-down" asks it first: its only transitive firewall is node 0, whose
    // backward projection re-runs the projection (4), which re-executes the
    // combining firewall (2) over a chain of firewalls (1 <- 3) that nobody
    // has repaired yet
    add("proj-over-deep-firewalls", vec![
        n(F, Id(In(0))),            // 0 Front
        n(F, Id(In(1))),            // 1 Deep
        n(F, Add(In(0), C(3))),     // 2 Combined (reads in0 first, then Mid)
        n(F, Id(C(1))),             // 3 Mid (reads Deep)
        n(P, Add(C(0), C(2))),      // 4 View (reads Front, Combined)
        n(N, Id(C(4))),             // 5 Screen
        n(N, Id(C(0))),             // 6 Gauge
    ]);
    add("proj-cond-consumer", vec![
        n(F, Add(In(0), In(1))),
        n(P, Sat(C(0))),
        n(N, If(In(1), C(1), In(0))),
    ]);
    v
}

/// Systematic universe: `m` computed nodes, node i reads only inputs and
/// earlier nodes and (for i > 0) must read node i-1; every style x body that
/// satisfies the projection rule.
pub fn systematic(m: usize, bodies: &[&str]) -> Vec<Program> {
    fn bodies_for(i: usize, kinds: &[&str]) -> Vec<Body> {
        let mut deps: Vec<Dep> = vec![Dep::In(0), Dep::In(1)];
        for j in 0..i {
            deps.push(Dep::C(j as u8));
        }
        let mut out = Vec::new();
        for k in kinds {
            match *k {
                "Id" => deps.iter().for_each(|d| out.push(Body::Id(*d))),
                "Sat" => deps.iter().for_each(|d| out.push(Body::Sat(*d))),
                "Add" => {
                    for a in 0..deps.len() {
                        for b in a + 1..deps.len() {
                            out.push(Body::Add(deps[a], deps[b]));
                        }
                    }
                }
                "If" => {
                    for c in &deps {
                        for a in &deps {
                            for b in &deps {
                                if a != b {
                                    out.push(Body::If(*c, *a, *b));
                                }
                            }
                        }
                    }
                }
                "JoinAdd" => {
                    for a in 0..deps.len() {
                        for b in a + 1..deps.len() {
                            out.push(Body::JoinAdd(vec![deps[a], deps[b]]));
                        }
                    }
                }
                "UnordAdd" => {
                    for a in 0..deps.len() {
                        for b in a + 1..deps.len() {
                            out.push(Body::UnordAdd(vec![deps[a], deps[b]]));
                        }
                    }
                }
                _ => {}
            }
        }
        if i > 0 {
            out.retain(|b| b.deps().contains(&Dep::C(i as u8 - 1)));
        }
        out
    }

    let mut progs: Vec<Program> = vec![Program::default()];
    for i in 0..m {
        let mut next = Vec::new();
        for p in &progs {
            for b in bodies_for(i, bodies) {
                for s in [Style::N, Style::F, Style::P] {
                    let mut q = p.clone();
                    q.nodes.push(Node { style: s, body: b.clone() });
                    if q.respects_projection_rule() {
                        next.push(q);
                    }
                }
            }
        }
        progs = next;
    }
    progs
}

pub struct Universe {
    pub name: String,
    pub programs: Vec<(String, Program)>,
    pub depth: usize,
    pub rich: bool,
}

fn universes(thorough: bool) -> Vec<Universe> {
    let cur = |depth, rich| Universe {
        name: format!("curated(depth {depth})"),
        programs: curated()
            .into_iter()
            .map(|(n, p)| (n.to_string(), p))
            .collect(),
        depth,
        rich,
    };
    let sys = |m: usize, b: &[&str], depth| Universe {
        name: format!("systematic(m={m}, bodies={b:?}, depth {depth})"),
        programs: systematic(m, b)
            .into_iter()
            .map(|p| (p.describe(), p))
            .collect(),
        depth,
        rich: false,
    };
    // debugging aid: VH_ONLY_PROGRAM=<name> restricts the curated universe
    if let Ok(only) = std::env::var("VH_ONLY_PROGRAM") {
        let mut u = cur(if thorough { 5 } else { 3 }, thorough);
        u.programs.retain(|(n, _)| *n == only);
        return vec![u];
    }
    if thorough {
        vec![
            cur(5, true),
            sys(2, &["Id", "Sat", "Add", "If"], 4),
            sys(3, &["Id", "Sat"], 4),
            sys(2, &["JoinAdd", "UnordAdd"], 4),
        ]
    } else {
        vec![cur(3, false), sys(2, &["Id", "Sat", "Add"], 3)]
    }
}

#[derive(Default)]
struct Totals {
    states: u64,
    transitions: u64,
    runs: u64,
    activations: u64,
    max_depth: usize,
    programs: u64,
    capped: u64,
}

pub fn run_program(
    p: &Program,
    depth: usize,
    rich: bool,
    abstract_ts: bool,
    max_states: usize,
) -> Result<(hist::SearchStats, Vec<hist::Case>), String> {
    let search = Arc::new(Mutex::new(hist::Search::new(
        hist::alphabet(p, rich),
        depth,
        max_states,
    )));
    let current: Arc<Mutex<Option<Vec<Op>>>> = Arc::new(Mutex::new(None));
    let mut cfg = xplore::Cfg::new(0);
    cfg.repeat = true;
    cfg.max_failures = 20;
    {
        // an execution that dies (deadlock, step cap, escaped panic) is a
        // finding for the history it was running
        let (search, current) = (search.clone(), current.clone());
        cfg.on_failure = Some(Arc::new(move |f| {
            if let Some(h) = current.lock().unwrap().take() {
                let mut rr = hist::RunResult::default();
                rr.canon = format!("failed:{h:?}");
                rr.findings.push(hist::Finding {
                    property: "C01",
                    step: h.len().saturating_sub(1),
                    what: format!("{:?}: {}", f.kind, f.msg),
                    ..Default::default()
                });
                let mut s = search.lock().unwrap();
                s.submit(h, rr);
                xplore::set_more(s.has_more());
            }
        }));
    }
    let p2 = p.clone();
    let (s2, c2) = (search.clone(), current.clone());
    let o = xplore::explore(
        &cfg,
        Arc::new(move || {
            let h = s2.lock().unwrap().next();
            let Some(h) = h else {
                xplore::set_more(false);
                return;
            };
            *c2.lock().unwrap() = Some(h.clone());
            let r = shuttle::future::block_on(hist::run_mem(&p2, &h, abstract_ts));
            c2.lock().unwrap().take();
            let mut s = s2.lock().unwrap();
            s.submit(h, r);
            xplore::set_more(s.has_more());
        }),
    );
    if let Some(m) = o.machinery_error {
        return Err(m);
    }
    let mut s = search.lock().unwrap();
    let stats = std::mem::take(&mut s.stats);
    let findings = std::mem::take(&mut s.findings);
    Ok((stats, findings))
}

pub fn check(property: &'static str) -> i32 {
    let mut rep = Report::new(property, "model_checking");
    let thorough = rep.is_thorough();
    rep.rule = "explicit-state BFS over operation histories (sessions with \
                set/update/refresh incl. no-change writes, commit or drop; \
                queries of every node; world changes) of the REAL engine for \
                every program of the listed universes; a state = everything \
                the engine persists (shadow dump of all storage maps, \
                timestamps abstracted to ==current-epoch) + reference model + \
                judge memory; every transition re-executes the implementation \
                from a fresh engine and is checked against the from-scratch \
                evaluator at every user value, every executor dependency read \
                and every SetInputResult (C01) / every executor activation is \
                judged for justification (C03)"
        .into();
    rep.assumptions = vec![
        "sequential histories (one task at a time; default schedule)".into(),
        "values in {0,1,2}; <=2 inputs + <=1 external input; in-memory storage \
         engine"
            .into(),
        "timestamp abstraction is sound because the engine compares timestamps \
         only for equality with the caller's epoch (re-validated in the \
         thorough tier by a run with the abstraction off)"
            .into(),
    ];

    let threads = crate::report::threads();
    let tot = Arc::new(Mutex::new(Totals::default()));
    let viol: Arc<Mutex<Vec<Violation>>> = Arc::new(Mutex::new(Vec::new()));
    let errs: Arc<Mutex<Vec<String>>> = Arc::new(Mutex::new(Vec::new()));
    let mut uni_json = Vec::new();
    let max_states = if thorough { 4000 } else { 3000 };

    for u in universes(thorough) {
        let before = tot.lock().unwrap().transitions;
        let queue = Arc::new(Mutex::new(
            u.programs.iter().cloned().enumerate().collect::<Vec<_>>(),
        ));
        let uidx = uni_json.len();
        let nprog = u.programs.len();
        std::thread::scope(|sc| {
            for _ in 0..threads {
                let (queue, tot, viol, errs) =
                    (queue.clone(), tot.clone(), viol.clone(), errs.clone());
                let (depth, rich) = (u.depth, u.rich);
                std::thread::Builder::new()
                    .stack_size(32 << 20)
                    .spawn_scoped(sc, move || {
                        loop {
                            let item = queue.lock().unwrap().pop();
                            let Some((pidx, (name, p))) = item else { break };
                            // programs with many nodes (large alphabets): one
                            // step shallower, at least 2
                            let depth = if p.nodes.len() > 5 { depth.saturating_sub(1).max(2) } else { depth };
                            let max_states = if p.nodes.len() > 5 { max_states * 3 } else { max_states };
                            match run_program(&p, depth, rich, true, max_states)
                            {
                                Ok((st, finds)) => {
                                    let mut t = tot.lock().unwrap();
                                    t.states += st.states;
                                    t.transitions += st.transitions;
                                    t.runs += st.runs;
                                    t.activations += st.activations;
                                    t.max_depth = t.max_depth.max(st.max_depth);
                                    t.programs += 1;
                                    if st.capped {
                                        t.capped += 1;
                                    }
                                    drop(t);
                                    // wrong values observed in the same step
                                    // as a classified stale read are its
                                    // consequences
                                    let mut classified: Vec<(hist::Case, Vec<String>)> = finds
                                        .into_iter()
                                        .map(|c| {
                                            let t = hist::classify(&p, &c.hist, &c.acts, &c.finding);
                                            (c, t)
                                        })
                                        .collect();
                                    let snapshot = classified.clone();
                                    for (c, t) in classified.iter_mut() {
                                        if t.contains(&"stale-behind-changed-firewall".to_string()) {
                                            for (c2, t2) in &snapshot {
                                                if c2.hist == c.hist && c2.finding.step == c.finding.step {
                                                    for tag in t2 {
                                                        if tag.starts_with("F10") && !t.contains(tag) {
                                                            t.push(tag.clone());
                                                        }
                                                    }
                                                }
                                            }
                                        }
                                    }
                                    for (c, ctags) in classified {
                                        let (h, f) = (c.hist, c.finding);
                                        if f.property != property {
                                            continue;
                                        }
                                        viol.lock().unwrap().push(Violation {
                                            what: format!(
                                                "{}: {} after {:?}",
                                                name,
                                                f.what,
                                                h.iter()
                                                    .map(Op::short)
                                                    .collect::<Vec<_>>()
                                            ),
                                            tags: {
                                                let mut t = tags_of(&p, &h, &f);
                                                t.extend(ctags);
                                                t
                                            },
                                            replay: json!({
                                                "check": "c01",
                                                "thorough": thorough,
                                                "universe": uidx,
                                                "program_index": pidx,
                                                "program": prog_json(&p),
                                                "history": hist::hist_json(&h),
                                                "history_idx": hist_idx(&p, rich, &h),
                                            }),
                                        });
                                    }
                                }
                                Err(e) => errs.lock().unwrap().push(format!(
                                    "program {name}: search aborted: {e}"
                                )),
                            }
                        }
                    })
                    .unwrap();
            }
        });
        let after = tot.lock().unwrap().transitions;
        uni_json.push(json!({"universe": u.name, "programs": nprog,
                             "transitions": after - before}));
    }

    let t = tot.lock().unwrap();
    rep.states = Some(t.states);
    rep.transitions = Some(t.transitions);
    rep.traces_validated = Some(t.runs);
    rep.evaluations = t.runs;
    rep.distinct_nontrivial = t.states;
    rep.extra.insert("programs".into(), json!(t.programs));
    rep.extra.insert("executor_activations_judged".into(), json!(t.activations));
    rep.extra.insert("max_history_depth".into(), json!(t.max_depth));
    rep.extra.insert("universes".into(), json!(uni_json));
    if t.capped > 0 {
        rep.cap(format!(
            "{} programs hit the per-program state cap {max_states}",
            t.capped
        ));
    }
    drop(t);
    let (cname, cp) = &curated()[4];
    rep.sample(json!({"program": cname, "nodes": cp.describe(),
        "alphabet": hist::alphabet(cp, false).iter().map(Op::short).collect::<Vec<_>>()}));
    for v in viol.lock().unwrap().drain(..) {
        rep.violation(v);
    }
    // an aborted search (deadlock / step cap inside the engine) is a
    // violation of the progress clause, reported with the program
    for e in errs.lock().unwrap().drain(..) {
        rep.violation(Violation {
            what: e.clone(),
            tags: vec!["search-aborted".into()],
            replay: json!({"check": "c01", "note": e}),
        });
    }
    rep.finish()
}

pub fn prog_json(p: &Program) -> Value {
    json!(p.describe())
}

fn tags_of(_p: &Program, _h: &[Op], f: &hist::Finding) -> Vec<String> {
    let mut t = vec![f.property.to_string()];
    if f.what.contains("to completion twice") {
        t.push("executed-twice".into());
    }
    if f.what.contains("re-executed although") {
        t.push("unjustified-reexecution".into());
    }
    t
}

fn hist_idx(p: &Program, rich: bool, h: &[Op]) -> Vec<usize> {
    let a = hist::alphabet(p, rich);
    h.iter().map(|o| a.iter().position(|x| x == o).unwrap_or(usize::MAX)).collect()
}

pub fn replay(v: &Value) -> i32 {
    let thorough = v["thorough"].as_bool().unwrap_or(false);
    let us = universes(thorough);
    let u = &us[v["universe"].as_u64().unwrap() as usize];
    let (name, p) = u.programs[v["program_index"].as_u64().unwrap() as usize].clone();
    let a = hist::alphabet(&p, u.rich);
    if std::env::var("VH_PRINT_ALPHABET").is_ok() {
        for (i, o) in a.iter().enumerate() {
            println!("  [{i}] {}", o.short());
        }
    }
    let h: Vec<Op> = v["history_idx"]
        .as_array()
        .unwrap()
        .iter()
        .map(|i| a[i.as_u64().unwrap() as usize].clone())
        .collect();
    println!("program {name}: {}", p.describe());
    println!("history: {:?}", h.iter().map(Op::short).collect::<Vec<_>>());
    let run = |p: Program, h: Vec<Op>| {
        xplore::run_default(move || {
            shuttle::future::block_on(hist::run_mem(&p, &h, true))
        })
    };
    let r1 = run(p.clone(), h.clone());
    let r2 = run(p, h);
    match (r1, r2) {
        (Ok(a), Ok(b)) => {
            if a.findings != b.findings {
                eprintln!("replay not deterministic");
                return 2;
            }
            for f in &a.findings {
                println!("replayed failure [{}] step {}: {}", f.property, f.step, f.what);
            }
            if a.findings.is_empty() { 0 } else { 1 }
        }
        (Err(e), _) | (_, Err(e)) => {
            println!("replayed failure: {:?} {}", e.kind, e.msg);
            1
        }
    }
}
