//! C02 — concurrent querying is sound, single-flight and terminates.

use std::sync::{Arc, Mutex};

use serde_json::{Value, json};

use crate::{
    pq::{Body, Dep, Event, Key, Node, Program, QIn, Shared, Style, Val},
    report::{Report, Violation, sched_from_json, sched_json},
    rig::{self, Ref},
    xplore, ystore,
};

fn n(style: Style, body: Body) -> Node { Node { style, body } }

#[derive(Clone, Debug)]
pub struct P {
    pub name: &'static str,
    /// queries issued sequentially before the concurrent phase
    pub pre: Vec<Key>,
    /// optional edit (input, value) after `pre` (so the concurrent phase
    /// repairs instead of computing fresh)
    pub pre_edit: Vec<(u8, Val)>,
    /// one entry per concurrent task: the keys it queries with its own
    /// tracked engine
    pub tasks: Vec<Vec<Key>>,
    /// edit after the concurrent phase, then everything is re-queried
    pub post_edit: (u8, Val),
    pub ymask: u32,
    pub yield_each_query: bool,
    pub yield_in_exec: bool,
}

pub fn program(name: &str) -> Program {
    use Body::*;
    use Dep::*;
    use Style::*;
    if let Some(k) = name.strip_prefix("fanin") {
        let k: u8 = k.parse().unwrap();
        let mut nodes = vec![n(N, Id(In(0)))];
        for _ in 0..k {
            nodes.push(n(N, Id(C(0))));
        }
        return Program { nodes };
    }
    match name {
        "diamond" => Program {
            nodes: vec![
                n(N, Id(In(0))),
                n(N, Sat(In(0))),
                n(N, JoinAdd(vec![C(0), C(1), In(1)])),
                n(N, UnordAdd(vec![C(0), C(1)])),
            ],
        },
        "fw2proj" => Program {
            nodes: vec![
                n(F, Add(In(0), In(1))),
                n(P, Sat(C(0))),
                n(P, Id(C(0))),
                n(N, Add(C(1), C(2))),
                n(N, Id(C(1))),
            ],
        },
        "fwchain" => Program {
            nodes: vec![
                n(F, Id(In(0))),
                n(F, Sat(C(0))),
                n(N, Id(C(1))),
                n(N, Add(C(1), In(1))),
            ],
        },
        // a projection that combines a deep and a shallow projection branch
        // over one firewall (backward projection runs the branches in
        // parallel tasks)
        "projdiamond" => Program {
            nodes: vec![
                n(F, Add(In(0), In(1))),
                n(P, Id(C(0))),
                n(P, Sat(C(0))),
                n(P, Id(C(1))),
                n(P, Add(C(3), C(2))),
                n(N, Id(C(4))),
            ],
        },
        // Sum over an unordered group of two independent members
        "unord" => Program {
            nodes: vec![
                n(N, Id(In(0))),
                n(N, Id(In(1))),
                n(N, UnordAdd(vec![C(0), C(1)])),
            ],
        },
        "chain" => Program {
            nodes: vec![
                n(N, Id(In(0))),
                n(N, Sat(C(0))),
                n(N, Id(C(1))),
                n(N, Add(C(1), C(0))),
            ],
        },
        _ => panic!("unknown program {name}"),
    }
}

pub fn scenario(p: P) -> Arc<dyn Fn() + Send + Sync> {
    Arc::new(move || {
        let p = p.clone();
        shuttle::future::block_on(async move {
            ystore::set_yield_mask(0);
            xplore::exploring(false);
            let prog = program(p.name);
            let sh = if p.yield_in_exec {
                Shared::new_yielding(prog.clone())
            } else {
                Shared::new(prog.clone())
            };
            let eng = rig::new_mem_engine_opt(&sh, p.yield_each_query).await;
            let mut r = Ref::default();
            {
                let mut s = eng.input_session().await;
                s.set_input(QIn(0), 0).await;
                s.set_input(QIn(1), 0).await;
                s.commit().await;
                r.set_input(0, 0);
                r.set_input(1, 0);
            }
            if !p.pre.is_empty() {
                let te = eng.clone().tracked().await;
                for k in &p.pre {
                    let v = rig::query(&sh, &te, *k).await;
                    if Some(v) != r.eval(&prog, *k) {
                        xplore::report_violation(format!(
                            "pre-query {k:?} = {v}, from scratch {:?}",
                            r.eval(&prog, *k)
                        ));
                    }
                }
            }
            if !p.pre_edit.is_empty() {
                let mut s = eng.input_session().await;
                for (i, v) in &p.pre_edit {
                    s.set_input(QIn(*i), *v).await;
                    r.set_input(*i, *v);
                }
                s.commit().await;
            }
            sh.take_events();
            sh.take_overlaps();
            xplore::settle().await;

            // ---------------- concurrent phase ----------------
            ystore::set_yield_mask(p.ymask);
            xplore::exploring(true);
            let results: Arc<Mutex<Vec<(usize, Key, Val)>>> =
                Arc::new(Mutex::new(Vec::new()));
            let mut hs = Vec::new();
            for (t, keys) in p.tasks.iter().enumerate() {
                let (eng, sh, keys, results) =
                    (eng.clone(), sh.clone(), keys.clone(), results.clone());
                hs.push(shuttle::future::spawn(async move {
                    let te = eng.clone().tracked().await;
                    for k in keys {
                        let v = rig::query(&sh, &te, k).await;
                        results.lock().unwrap().push((t, k, v));
                    }
                    drop(te);
                }));
            }
            for h in hs {
                let _ = h.await;
            }
            xplore::exploring(false);
            ystore::set_yield_mask(0);

            // ---------------- oracles ----------------
            for (t, k, v) in results.lock().unwrap().iter() {
                let want = r.eval(&prog, *k);
                if Some(*v) != want {
                    xplore::report_violation(format!(
                        "task {t}: query {k:?} = {v}, from scratch {want:?}"
                    ));
                }
            }
            let ev = sh.take_events();
            for k in sh.take_overlaps() {
                xplore::report_violation(format!(
                    "two executor activations of {k:?} overlapped"
                ));
            }
            let mut counts = std::collections::BTreeMap::new();
            for e in &ev {
                match e {
                    Event::Req { .. } | Event::FirstUnwind { .. } => {}
                    Event::Enter { .. } => {}
                    Event::Read { dep, val, .. } => {
                        let want = r.eval(&prog, rig::key_of_dep(*dep));
                        if want != Some(*val) {
                            xplore::report_violation(format!(
                                "executor read {dep:?} = {val}, from scratch \
                                 {want:?}"
                            ));
                        }
                    }
                    // an activation the engine itself cut short (aborted
                    // chunk of an unordered group) may be recomputed; only
                    // completed activations count
                    Event::Exit { key, val: Some(_), .. } => {
                        *counts.entry(*key).or_insert(0usize) += 1;
                    }
                    Event::Exit { .. } => {}
                }
            }
            for (k, c) in &counts {
                if *c > 1 {
                    xplore::report_violation(format!(
                        "{k:?} ran to completion {c} times in one epoch"
                    ));
                }
            }

            // ---------------- lost-invalidation detector ----------------
            {
                let mut s = eng.input_session().await;
                s.set_input(QIn(p.post_edit.0), p.post_edit.1).await;
                s.commit().await;
                r.set_input(p.post_edit.0, p.post_edit.1);
            }
            let te = eng.clone().tracked().await;
            let mut fin = Vec::new();
            for j in 0..prog.nodes.len() as u8 {
                let k = Key::C(j);
                let v = rig::query(&sh, &te, k).await;
                fin.push(v);
                let want = r.eval(&prog, k);
                if Some(v) != want {
                    xplore::report_violation(format!(
                        "after the next session: query {k:?} = {v}, from \
                         scratch {want:?} (lost invalidation)"
                    ));
                }
            }
            drop(te);
            let mut order: Vec<_> = ev
                .iter()
                .filter_map(|e| match e {
                    Event::Enter { key, .. } => Some(*key),
                    _ => None,
                })
                .collect();
            order.truncate(12);
            xplore::observe(format!("{order:?}{fin:?}"));
            drop(eng);
        });
    })
}


// ---------------------------------------------------------------------------
// fan-in far above the 1024-element threshold of the cached key-to-set map
// ---------------------------------------------------------------------------

#[derive(Clone, Debug)]
pub struct W {
    pub name: &'static str,
    /// engine over the real caches + write-behind + MemKv (else in-memory)
    pub db: bool,
    pub cache: u64,
    /// callers registered sequentially before the concurrent phase
    pub pre: u16,
    /// let the pipeline drain after the `pre` callers
    pub drain: bool,
    /// further callers registered after the drain (their batches are still in
    /// the pipeline when the concurrent phase starts)
    pub tail: u16,
    /// style of the callee
    pub callee: Style,
    pub tasks: usize,
    /// no physical commit from the start of the concurrent phase until the
    /// next session has been committed (new backward edges exist only in the
    /// staging area of the too-large set while dirtiness is propagated)
    pub hold: bool,
}

pub fn scenario_wide(w: W) -> Arc<dyn Fn() + Send + Sync> {
    use crate::pq::{QW, WIDE_RUNS};
    Arc::new(move || {
        let w = w.clone();
        shuttle::future::block_on(async move {
            ystore::set_yield_mask(0);
            xplore::exploring(false);
            let prog = Program { nodes: vec![n(w.callee, Body::Id(Dep::In(0)))] };
            let sh = Shared::new(prog);
            // generic over the two engine configurations
            macro_rules! body {
                ($eng:expr, $store:expr) => {{
                    let eng = $eng;
                    let store: Option<crate::memkv::Shared> = $store;
                    {
                        let mut s = eng.input_session().await;
                        s.set_input(QIn(0), 1).await;
                        s.commit().await;
                    }
                    {
                        let te = eng.clone().tracked().await;
                        for i in 0..w.pre {
                            let v = te.query(&QW(i)).await;
                            if v != 1 {
                                xplore::report_violation(format!("pre-query QW({i}) = {v}, from scratch 1"));
                            }
                        }
                    }
                    if w.drain {
                        crate::hist::drain_pipeline();
                    }
                    {
                        let te = eng.clone().tracked().await;
                        for i in w.pre..w.pre + w.tail {
                            let v = te.query(&QW(i)).await;
                            if v != 1 {
                                xplore::report_violation(format!("pre-query QW({i}) = {v}, from scratch 1"));
                            }
                        }
                    }
                    // ---------------- concurrent phase ----------------
                    if let (true, Some(st)) = (w.hold, &store) {
                        st.lock().unwrap().hold = true;
                    }
                    ystore::set_yield_mask(ystore::Y_SET);
                    xplore::exploring(true);
                    let res: Arc<Mutex<Vec<(usize, Val)>>> = Arc::new(Mutex::new(Vec::new()));
                    let mut hs = Vec::new();
                    for t in 0..w.tasks {
                        let (eng, res) = (eng.clone(), res.clone());
                        let key = QW(w.pre + w.tail + t as u16);
                        hs.push(shuttle::future::spawn(async move {
                            let te = eng.clone().tracked().await;
                            let v = te.query(&key).await;
                            res.lock().unwrap().push((t, v));
                        }));
                    }
                    for h in hs {
                        let _ = h.await;
                    }
                    xplore::exploring(false);
                    ystore::set_yield_mask(0);
                    for (t, v) in res.lock().unwrap().iter() {
                        if *v != 1 {
                            xplore::report_violation(format!("task {t}: new caller = {v}, from scratch 1"));
                        }
                    }
                    // ---------------- lost-invalidation detector ----------------
                    {
                        let mut s = eng.input_session().await;
                        s.set_input(QIn(0), 2).await;
                        s.commit().await;
                    }
                    if let Some(st) = &store {
                        st.lock().unwrap().hold = false;
                    }
                    let before = WIDE_RUNS.with(|c| c.get());
                    let te = eng.clone().tracked().await;
                    let total = w.pre + w.tail + w.tasks as u16;
                    // newest callers first
                    for i in (0..total).rev() {
                        let v = te.query(&QW(i)).await;
                        if v != 2 {
                            xplore::report_violation(format!(
                                "after the next session: caller QW({i}) of {total} = {v}, from scratch 2 (lost invalidation)"
                            ));
                            break;
                        }
                    }
                    let reran = WIDE_RUNS.with(|c| c.get()) - before;
                    if reran > total as u64 {
                        xplore::report_violation(format!("{reran} caller activations for {total} callers in one epoch"));
                    }
                    drop(te);
                    xplore::observe(format!("{reran}"));
                    drop(eng);
                }};
            }
            if w.db {
                let store = crate::memkv::new_state(crate::memkv::Grouping::UpTo(8), false);
                body!(rig::new_db_engine(&sh, store.clone(), w.cache, 1).await, Some(store));
            } else {
                body!(rig::new_mem_engine_opt(&sh, true).await, None);
            }
        });
    })
}

pub fn wide_params(thorough: bool) -> Vec<(W, usize)> {
    let mk = |name, db, cache, pre, tail, callee, tasks| W {
        name,
        db,
        cache,
        pre,
        drain: true,
        tail,
        callee,
        tasks,
        hold: false,
    };
    let mut v = vec![
        // exactly at the threshold in the store, two concurrent new callers only staged (commits held)
        (mk("wide-db-1024+2-held", true, 4, 1024, 0, Style::N, 2), 1),
        // above the threshold in the store, entry not resident (spilled scan + staging), firewall callee
        (mk("wide-db-1030+2-firewall", true, 2, 1030, 0, Style::F, 2), 1),
        // above the threshold, entry resident and marked too large (streaming + staging), commits held
        (mk("wide-db-1030+2-resident-held", true, 4096, 1030, 0, Style::N, 2), 1),
    ];
    v[0].0.hold = true;
    v[2].0.hold = true;
    if thorough {
        v.push((mk("wide-db-1021+2undrained+2", true, 4, 1021, 2, Style::N, 2), 1));
        v.push((mk("wide-mem-1030+2", false, 0, 1030, 0, Style::N, 2), 2));
        // (each execution repeats ~10^5 steps of set-up: bound 1 for three
        // tasks on the cached engine)
        v.push((mk("wide-db-1025+3", true, 4, 1025, 0, Style::N, 3), 1));
        v.push((mk("wide-db-1022+2undrained+2", true, 64, 1022, 2, Style::N, 2), 1));
        v.push((mk("wide-mem-1100+3", false, 0, 1100, 0, Style::N, 3), 2));
    }
    v
}

pub fn child_wide(idx: usize) {
    let thorough = crate::report::tier() == "thorough";
    let (w, d) = wide_params(thorough)[idx].clone();
    let mut cfg = xplore::Cfg::new(d);
    cfg.max_failures = 10;
    // the set-up alone (1000+ queries on the cached engine) is ~200 000 steps
    cfg.max_steps = 2_000_000;
    let o = xplore::explore_parallel(&cfg, crate::report::threads(), scenario_wide(w));
    crate::report::emit_child_result(&o.to_json());
}

fn keys(v: &[u8]) -> Vec<Key> { v.iter().map(|j| Key::C(*j)).collect() }

pub fn params(thorough: bool) -> Vec<(P, usize)> {
    let mut v = Vec::new();
    let d = |q: usize, t: usize| if thorough { t } else { q };
    let base = |name, pre: Vec<Key>, pre_edit: Option<(u8, Val)>, tasks: Vec<Vec<Key>>| P {
        name,
        pre,
        pre_edit: pre_edit.into_iter().collect(),
        tasks,
        post_edit: (0, 2),
        ymask: ystore::Y_SET,
        yield_each_query: true,
        yield_in_exec: false,
    };
    // fan-in across the 32-element tier of the backward-edge set
    v.push((
        base(
            "fanin34",
            (1..=32).map(Key::C).collect(),
            None,
            vec![keys(&[33]), keys(&[34])],
        ),
        d(2, 3),
    ));
    v.push((
        base(
            "fanin33",
            (1..=31).map(Key::C).collect(),
            None,
            vec![keys(&[32]), keys(&[33])],
        ),
        d(2, 2),
    ));
    // small fan-in, three tasks, fresh
    v.push((
        base("fanin3", vec![], None, vec![keys(&[1]), keys(&[2]), keys(&[3])]),
        d(2, 3),
    ));
    // same callee repaired by two callers after an edit
    v.push((
        base(
            "fanin3",
            keys(&[1, 2, 3]),
            Some((0, 1)),
            vec![keys(&[1, 2]), keys(&[2, 3])],
        ),
        d(2, 3),
    ));
    v.push((
        base("diamond", vec![], None, vec![keys(&[2]), keys(&[3]), keys(&[0])]),
        d(2, 2),
    ));
    v.push((
        base(
            "diamond",
            keys(&[2, 3]),
            Some((0, 1)),
            vec![keys(&[2]), keys(&[3])],
        ),
        d(2, 3),
    ));
    v.push((
        base(
            "fw2proj",
            keys(&[3, 4]),
            Some((0, 1)),
            vec![keys(&[3]), keys(&[4])],
        ),
        d(2, 3),
    ));
    v.push((
        base("fw2proj", vec![], None, vec![keys(&[3]), keys(&[4])]),
        d(2, 2),
    ));
    v.push((
        base(
            "fwchain",
            keys(&[2, 3]),
            Some((0, 1)),
            vec![keys(&[2]), keys(&[3])],
        ),
        d(2, 3),
    ));
    v.push((
        base("projdiamond", keys(&[5]), Some((0, 1)), vec![keys(&[5])]),
        d(2, 3),
    ));
    v.push((
        base(
            "projdiamond",
            keys(&[5]),
            Some((0, 2)),
            vec![keys(&[5]), keys(&[4])],
        ),
        d(1, 2),
    ));
    v.push((
        base(
            "chain",
            keys(&[2, 3]),
            Some((0, 2)),
            vec![keys(&[3, 2]), keys(&[2, 3])],
        ),
        d(2, 3),
    ));
    {
        // a member of an unordered group is requested directly while the
        // group's owner is being repaired; both members changed
        let mut p = base("unord", keys(&[2]), None, vec![keys(&[1]), keys(&[2])]);
        p.pre_edit = vec![(0, 1), (1, 1)];
        p.post_edit = (1, 2);
        p.yield_in_exec = true;
        v.push((p, d(3, 4)));
    }
    if thorough {
        let mut p = base(
            "diamond",
            keys(&[2, 3]),
            Some((0, 1)),
            vec![keys(&[2]), keys(&[3])],
        );
        p.ymask = ystore::Y_ALL;
        p.yield_in_exec = true;
        v.push((p, 2));
        let mut p =
            base("fanin3", vec![], None, vec![keys(&[1]), keys(&[2])]);
        p.ymask = ystore::Y_ALL;
        p.yield_in_exec = true;
        v.push((p, 3));
    }
    v
}

fn p_json(p: &P) -> Value {
    json!({"program": p.name, "pre": format!("{:?}", p.pre),
        "pre_edit": format!("{:?}", p.pre_edit),
        "tasks": format!("{:?}", p.tasks), "post_edit": format!("{:?}", p.post_edit),
        "ymask": p.ymask, "yield_each_query": p.yield_each_query,
        "yield_in_exec": p.yield_in_exec})
}

fn tags_of(p: &P, msg: &str) -> Vec<String> {
    let mut t = Vec::new();
    if msg.contains("lost invalidation") && p.name.starts_with("fanin3")
        && p.name.len() > 6
    {
        t.push("lost-backward-edge-at-tier-upgrade".into());
    }
    t
}

pub fn check() -> i32 {
    let mut rep = Report::new("C02", "exploration");
    let thorough = rep.is_thorough();
    rep.rule = "every schedule with <= d deviations (d per scenario) of 2-3 \
                concurrent reader tasks (own tracked engine each, 1-2 queries \
                on overlapping roots) on the real engine, for fan-in programs \
                across the 32-element tier of the backward-edge set, diamonds \
                with concurrent/unordered reads, firewall+projections and \
                firewall chains, fresh and after an edit (repair paths); then \
                an edit and a sequential re-query of every node. Oracles on \
                every execution: values == from scratch, no overlapping \
                activation of one key, <=1 activation per key and epoch, no \
                deadlock/livelock, post-edit values == from scratch (lost \
                invalidation). distinct = (step, runnable-set) signatures"
        .into();
    rep.assumptions = vec![
        "interleavings of <=3 tasks at lock/await/yield/selected-atomic \
         granularity with <=d deviations; true parallelism on many workers and \
         weak memory orderings are outside the bound"
            .into(),
        "scc, dashmap, tokio::sync internals are atomic steps".into(),
    ];
    let threads = crate::report::threads();
    let mut scen = Vec::new();
    let all = params(thorough);
    let _ = threads;
    for (idx, (p, d)) in all.iter().enumerate() {
        let Some(o) = crate::report::explore_isolated(
            &mut rep, "c02", idx, p.name, thorough,
        ) else {
            continue;
        };
        rep.evaluations += o.executions;
        rep.distinct_nontrivial += o.sigs;
        scen.push(json!({"scenario": p_json(p), "bound": d,
            "schedules": o.executions, "steps": o.steps,
            "max_depth": o.max_depth,
            "distinct_outcomes": o.outcomes,
            "failures": o.failures.len(), "cap": o.cap_hit}));
        if let Some(c) = &o.cap_hit {
            rep.cap(format!("{}: {c}", p.name));
        }
        if let Some(m) = o.machinery_error {
            rep.machinery_errors.push(m);
        }
        for f in &o.failures {
            let mut tags = tags_of(p, &f.msg);
            tags.push(format!("{:?}", f.kind));
            rep.violation(Violation {
                what: format!("{} {:?}: {}", p.name, f.kind, f.msg),
                tags,
                replay: json!({"check": "c02", "thorough": thorough,
                    "scenario_index": idx,
                    "schedule": sched_json(&f.schedule)}),
            });
        }
        rep.sample(json!({"scenario": p_json(p), "bound": d,
                          "schedules": o.executions}));
    }
    for (idx, (w, d)) in wide_params(thorough).iter().enumerate() {
        let Some(o) = crate::report::explore_isolated(&mut rep, "c02w", idx, w.name, thorough) else {
            continue;
        };
        rep.evaluations += o.executions;
        rep.distinct_nontrivial += o.sigs;
        scen.push(json!({"scenario": format!("{w:?}"), "bound": d, "schedules": o.executions, "steps": o.steps,
            "max_depth": o.max_depth, "distinct_outcomes": o.outcomes, "failures": o.failures.len(), "cap": o.cap_hit}));
        if let Some(c) = &o.cap_hit {
            rep.cap(format!("{}: {c}", w.name));
        }
        if let Some(m) = o.machinery_error {
            rep.machinery_errors.push(m);
        }
        for f in &o.failures {
            rep.violation(Violation {
                what: format!("{} {:?}: {}", w.name, f.kind, f.msg),
                tags: vec![format!("{:?}", f.kind)],
                replay: json!({"check": "c02w", "thorough": thorough, "scenario_index": idx,
                    "schedule": sched_json(&f.schedule)}),
            });
        }
    }
    rep.extra.insert("scenarios".into(), json!(scen));
    rep.finish()
}

pub fn child(idx: usize) {
    let thorough = crate::report::tier() == "thorough";
    let (p, d) = params(thorough)[idx].clone();
    let mut cfg = xplore::Cfg::new(d);
    cfg.max_failures = 30;
    let o = xplore::explore_parallel(&cfg, crate::report::threads(), scenario(p));
    crate::report::emit_child_result(&o.to_json());
}

pub fn replay(v: &Value) -> i32 {
    let thorough = v["thorough"].as_bool().unwrap_or(false);
    if v["check"].as_str() == Some("c02w") {
        let (w, _) = wide_params(thorough)[v["scenario_index"].as_u64().unwrap() as usize].clone();
        let s = sched_from_json(&v["schedule"]);
        let o = xplore::replay(&s, scenario_wide(w));
        for f in &o.failures {
            println!("replayed failure: {}", f.msg);
        }
        return i32::from(!o.failures.is_empty());
    }
    let (p, _) =
        params(thorough)[v["scenario_index"].as_u64().unwrap() as usize].clone();
    let s = sched_from_json(&v["schedule"]);
    let o1 = xplore::replay(&s, scenario(p.clone()));
    let o2 = xplore::replay(&s, scenario(p));
    let m1: Vec<_> = o1.failures.iter().map(|f| f.msg.clone()).collect();
    let m2: Vec<_> = o2.failures.iter().map(|f| f.msg.clone()).collect();
    if m1 != m2 {
        eprintln!("replay is not deterministic: {m1:?} vs {m2:?}");
        return 2;
    }
    for m in &m1 {
        println!("replayed failure: {m}");
    }
    if m1.is_empty() { 0 } else { 1 }
}
