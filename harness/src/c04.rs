//! C04 — input sessions are atomic and readers see one input snapshot.

use std::sync::{
    Arc,
    atomic::{AtomicUsize, Ordering},
};

use serde_json::{Value, json};

use crate::{
    pq::{Body, Dep, Key, Node, Program, QIn, Shared, Style},
    report::{Report, Violation, sched_from_json, sched_json},
    rig, xplore, ystore,
};

#[derive(Clone, Debug)]
pub struct P {
    /// 0 plain, 1 behind a firewall, 2 behind firewall+projection
    pub shape: u8,
    pub sessions: u8,
    /// false: commit(), true: plain drop of the session
    pub drop_session: bool,
    pub readers: u8,
    pub reads: u8,
    pub ymask: u32,
    /// query the root once before the concurrent phase
    pub warm: bool,
    /// engine over DbBacked<MemKv>; after the concurrent phase the engine is
    /// shut down cleanly and a new one on the same store must show the last
    /// session's snapshot (what reached the store, in commit order, is the
    /// same snapshot the live engine showed)
    pub db: bool,
    /// the first session is committed during set-up (after the warm-up
    /// query): the concurrent phase starts with a root that has to be
    /// recomputed, so a reader's recomputation can be in flight when the
    /// next session is opened
    pub pre_edit: bool,
}

impl P {
    pub fn to_json(&self) -> Value {
        json!({"shape": self.shape, "sessions": self.sessions,
               "drop_session": self.drop_session, "readers": self.readers,
               "reads": self.reads, "ymask": self.ymask, "warm": self.warm, "db": self.db, "pre_edit": self.pre_edit})
    }

    pub fn from_json(v: &Value) -> Self {
        Self {
            shape: v["shape"].as_u64().unwrap() as u8,
            sessions: v["sessions"].as_u64().unwrap() as u8,
            drop_session: v["drop_session"].as_bool().unwrap(),
            readers: v["readers"].as_u64().unwrap() as u8,
            reads: v["reads"].as_u64().unwrap() as u8,
            ymask: v["ymask"].as_u64().unwrap() as u32,
            warm: v["warm"].as_bool().unwrap(),
            db: v["db"].as_bool().unwrap_or(false),
            pre_edit: v["pre_edit"].as_bool().unwrap_or(false),
        }
    }
}

pub fn program(shape: u8) -> (Program, Key) {
    let add = Body::Add(Dep::In(0), Dep::In(1));
    match shape {
        0 => (
            Program { nodes: vec![Node { style: Style::N, body: add }] },
            Key::C(0),
        ),
        1 => (
            Program {
                nodes: vec![
                    Node { style: Style::F, body: add },
                    Node { style: Style::N, body: Body::Id(Dep::C(0)) },
                ],
            },
            Key::C(1),
        ),
        _ => (
            Program {
                nodes: vec![
                    Node { style: Style::F, body: add },
                    Node { style: Style::P, body: Body::Id(Dep::C(0)) },
                    Node { style: Style::N, body: Body::Id(Dep::C(1)) },
                ],
            },
            Key::C(2),
        ),
    }
}

fn snap(k: usize) -> (u8, u8, u8) {
    let a = (k % 3) as u8;
    (a, a, (2 * a) % 3)
}

pub fn scenario(p: P) -> Arc<dyn Fn() + Send + Sync> {
    Arc::new(move || {
        let p = p.clone();
        shuttle::future::block_on(async move {
            ystore::set_yield_mask(0);
            xplore::exploring(false);
            let (prog, root) = program(p.shape);
            let sh = Shared::new(prog);
            if p.db {
                let store = crate::memkv::new_state(crate::memkv::Grouping::Never, false);
                let eng = rig::new_db_engine(&sh, store.clone(), 2, 1).await;
                body(p, eng, sh, root, Some(store)).await;
            } else {
                let eng = rig::new_mem_engine(&sh).await;
                body(p, eng, sh, root, None).await;
            }
        });
    })
}

async fn body<C: qbice::Config>(
    p: P,
    eng: Arc<qbice::Engine<C>>,
    sh: Arc<Shared>,
    root: Key,
    store: Option<crate::memkv::Shared>,
) {
    {
        {
            {
                let mut s = eng.input_session().await;
                s.set_input(QIn(0), 0).await;
                s.set_input(QIn(1), 0).await;
                s.commit().await;
            }
            if p.warm {
                let te = eng.clone().tracked().await;
                let _ = rig::query(&sh, &te, root).await;
            }
            let first = if p.pre_edit {
                let mut s = eng.input_session().await;
                let (a, b, _) = snap(1);
                s.set_input(QIn(0), a).await;
                s.set_input(QIn(1), b).await;
                s.commit().await;
                2
            } else {
                1
            };
            xplore::settle().await;
            ystore::set_yield_mask(p.ymask);
            xplore::exploring(true);

            let started = Arc::new(AtomicUsize::new(first - 1));
            let committed = Arc::new(AtomicUsize::new(first - 1));
            let seen = Arc::new(std::sync::Mutex::new(Vec::<(u8, u8, u8, u8)>::new()));
            let mut handles = Vec::new();

            {
                let (eng, started, committed, p) =
                    (eng.clone(), started.clone(), committed.clone(), p.clone());
                handles.push(shuttle::future::spawn(async move {
                    for k in first..=p.sessions as usize {
                        started.fetch_add(1, Ordering::SeqCst);
                        let mut s = eng.input_session().await;
                        // holding the session implies every earlier session
                        // (also a dropped one) has been committed
                        committed.store(k - 1, Ordering::SeqCst);
                        let (a, b, _) = snap(k);
                        s.set_input(QIn(0), a).await;
                        s.set_input(QIn(1), b).await;
                        if p.drop_session {
                            drop(s);
                        } else {
                            s.commit().await;
                            committed.store(k, Ordering::SeqCst);
                        }
                    }
                }));
            }

            for r in 0..p.readers {
                let (eng, sh, started, committed, p, seen) = (
                    eng.clone(),
                    sh.clone(),
                    started.clone(),
                    committed.clone(),
                    p.clone(),
                    seen.clone(),
                );
                handles.push(shuttle::future::spawn(async move {
                    for i in 0..p.reads {
                        let c0 = committed.load(Ordering::SeqCst);
                        let te = eng.clone().tracked().await;
                        let s1 = started.load(Ordering::SeqCst);
                        let rv = rig::query(&sh, &te, root).await;
                        let a = rig::query(&sh, &te, Key::In(0)).await;
                        let b = rig::query(&sh, &te, Key::In(1)).await;
                        // a tracked engine is one snapshot for its whole life
                        let rv2 = rig::query(&sh, &te, root).await;
                        drop(te);
                        seen.lock().unwrap().push((r, a, b, rv));
                        let ok = (c0..=s1).any(|k| snap(k) == (a, b, rv))
                            && rv == rv2;
                        if !ok {
                            let mixed = a != b;
                            let stale_root = a == b && rv != (2 * a) % 3;
                            xplore::report_violation(format!(
                                "reader {r} read {i}: (A,B,root)=({a},{b},{rv}) \
                                 repeat={rv2} not a snapshot in [{c0},{s1}] \
                                 mixed_inputs={mixed} stale_root={stale_root}"
                            ));
                        }
                    }
                }));
            }

            for h in handles {
                let _ = h.await;
            }

            ystore::set_yield_mask(0);
            xplore::exploring(false);
            let fin = snap(p.sessions as usize);
            // (the db variant does not ask the live engine again: a query
            // after the last session would recompute and publish once more
            // and thereby repair whatever the store was missing)
            let (a, b, rv) = if store.is_some() {
                fin
            } else {
                let te = eng.clone().tracked().await;
                let rv = rig::query(&sh, &te, root).await;
                let a = rig::query(&sh, &te, Key::In(0)).await;
                let b = rig::query(&sh, &te, Key::In(1)).await;
                drop(te);
                (a, b, rv)
            };
            if (a, b, rv) != fin {
                xplore::report_violation(format!(
                    "after all sessions: (A,B,root)=({a},{b},{rv}) expected \
                     {fin:?} stale_root={}",
                    a == fin.0 && b == fin.1
                ));
            }
            let mut sv = seen.lock().unwrap().clone();
            sv.sort_unstable();
            xplore::observe(format!("{a}{b}{rv}{sv:?}"));
            drop(eng);
            if let Some(store) = store {
                // clean shutdown done: what a new engine finds on the store
                let sh2 = Shared::new(sh.program.clone());
                let eng2 = rig::new_db_engine(&sh2, store, 2, 1).await;
                let te = eng2.clone().tracked().await;
                let rv = rig::query(&sh2, &te, root).await;
                let a = rig::query(&sh2, &te, Key::In(0)).await;
                let b = rig::query(&sh2, &te, Key::In(1)).await;
                drop(te);
                if (a, b, rv) != fin {
                    xplore::report_violation(format!(
                        "after a clean shutdown and reopen: (A,B,root)=({a},{b},{rv}) expected {fin:?} \
                         (the store does not hold the snapshot the live engine showed) stale_root={}",
                        a == fin.0 && b == fin.1
                    ));
                }
                drop(eng2);
            }
        }
    }
}

fn params(thorough: bool) -> Vec<(P, usize)> {
    let mut v = Vec::new();
    for shape in 0..3u8 {
        for drop_session in [false, true] {
            for warm in [true, false] {
                // one session, two readers, every storage access yields
                let deep = warm && shape != 1;
                v.push((
                    P {
                        shape,
                        sessions: 1,
                        drop_session,
                        readers: 2,
                        reads: 1,
                        ymask: ystore::Y_ALL,
                        warm,
                        db: false, pre_edit: false,
                    },
                    match (thorough, deep) {
                        (true, true) if shape == 0 && !drop_session => 3,
                        (true, _) => 2,
                        (false, true) => 2,
                        (false, false) => 1,
                    },
                ));
                // two sessions, one reader reading twice
                v.push((
                    P {
                        shape,
                        sessions: 2,
                        drop_session,
                        readers: 1,
                        reads: 2,
                        ymask: ystore::Y_PUT,
                        warm,
                        db: false, pre_edit: false,
                    },
                    if thorough { 2 } else { 1 },
                ));
            }
        }
    }
    // the same over DbBacked<MemKv>, with a clean shutdown + reopen at the end
    // (the pipeline threads multiply the choice points: bound 1)
    for shape in 0..3u8 {
        for (sessions, readers, reads) in [(1u8, 1u8, 1u8), (2, 1, 2)] {
            if !thorough && sessions == 2 && shape == 1 {
                continue;
            }
            v.push((
                P { shape, sessions, drop_session: false, readers, reads, ymask: ystore::Y_ALL, warm: true, db: true, pre_edit: false },
                if thorough && sessions == 1 { 2 } else { 1 },
            ));
        }
    }
    // a recomputation in flight while the next session is being opened
    // (first session committed during set-up), in memory and over the store
    for shape in 0..3u8 {
        for db in [false, true] {
            v.push((
                P { shape, sessions: 2, drop_session: false, readers: 1, reads: 1, ymask: ystore::Y_ALL, warm: true, db, pre_edit: true },
                if db && !thorough { 1 } else { 2 },
            ));
        }
    }
    if thorough {
        v.push((
            P {
                shape: 0,
                sessions: 2,
                drop_session: false,
                readers: 2,
                reads: 2,
                ymask: ystore::Y_PUT,
                warm: true,
                db: false, pre_edit: false,
            },
            2,
        ));
    }
    v
}

fn tags_of(msg: &str) -> Vec<String> {
    let mut t = Vec::new();
    if msg.contains("stale_root=true") {
        t.push("stale-root-verified-at-new-epoch".to_string());
    }
    if msg.contains("mixed_inputs=true") {
        t.push("mixed-inputs".to_string());
    }
    t
}

pub fn check() -> i32 {
    let mut rep = Report::new("C04", "exploration");
    let thorough = rep.is_thorough();
    rep.rule = "every schedule with <= d deviations from the default schedule \
                (d per scenario in `scenarios`) of: 1 writer task running 1-2 \
                input sessions (each writes A and B; commit or drop) + 1-2 \
                reader tasks looping tracked()/query(root,A,B)/drop, on the \
                real engine under the controlled scheduler; scheduling points \
                at every storage access, lock, atomic and await; variants: \
                first session committed during set-up (a recomputation is in \
                flight when the next session opens), engine over \
                DbBacked<MemKv> with clean shutdown + reopen at the end (the \
                reopened engine shows the last snapshot). distinct = \
                distinct (step, runnable-set) signatures visited"
        .into();
    rep.assumptions = vec![
        "interleavings at lock/await/storage-access/atomic granularity on one \
         OS thread; weak-memory effects and >d deviations are outside the bound"
            .into(),
        "scc/dashmap/tokio::sync internals are atomic steps".into(),
    ];
    let threads = crate::report::threads();
    let mut scen = Vec::new();
    let mut outcomes = 0usize;
    let _ = threads;
    for (idx, (p, d)) in params(thorough).into_iter().enumerate() {
        let Some(o) = crate::report::explore_isolated(
            &mut rep, "c04", idx, "c04", thorough,
        ) else {
            continue;
        };
        rep.evaluations += o.executions;
        rep.distinct_nontrivial += o.sigs;
        outcomes = outcomes.max(o.outcomes);
        scen.push(json!({"params": p.to_json(), "bound": d,
            "schedules": o.executions, "steps": o.steps,
            "max_depth": o.max_depth,
            "distinct_outcomes": o.outcomes,
            "failures": o.failures.len()}));
        if let Some(c) = &o.cap_hit {
            rep.cap(c.clone());
        }
        if let Some(m) = o.machinery_error {
            rep.machinery_errors.push(m);
        }
        for f in &o.failures {
            let mut tags = tags_of(&f.msg);
            tags.push(format!("{:?}", f.kind));
            rep.violation(Violation {
                what: format!("{:?}: {}", f.kind, f.msg),
                tags,
                replay: json!({"check": "c04", "params": p.to_json(),
                               "schedule": sched_json(&f.schedule)}),
            });
        }
        rep.sample(json!({"scenario": p.to_json(), "bound": d,
                          "schedules": o.executions}));
    }
    rep.extra.insert("scenarios".into(), json!(scen));
    rep.extra.insert("max_distinct_outcomes".into(), json!(outcomes));
    rep.finish()
}

pub fn child(idx: usize) {
    let thorough = crate::report::tier() == "thorough";
    let (p, d) = params(thorough)[idx].clone();
    let mut cfg = xplore::Cfg::new(d);
    cfg.max_failures = 50;
    let o = xplore::explore_parallel(&cfg, crate::report::threads(), scenario(p));
    crate::report::emit_child_result(&o.to_json());
}

pub fn replay(v: &Value) -> i32 {
    let p = P::from_json(&v["params"]);
    let s = sched_from_json(&v["schedule"]);
    let o1 = xplore::replay(&s, scenario(p.clone()));
    let o2 = xplore::replay(&s, scenario(p));
    let m1: Vec<_> = o1.failures.iter().map(|f| f.msg.clone()).collect();
    let m2: Vec<_> = o2.failures.iter().map(|f| f.msg.clone()).collect();
    if m1 != m2 {
        eprintln!("replay is not deterministic: {m1:?} vs {m2:?}");
        return 2;
    }
    for m in &m1 {
        println!("replayed failure: {m}");
    }
    if m1.is_empty() { 0 } else { 1 }
}
