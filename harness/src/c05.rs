//! C05 — cancellation or an executor panic never corrupts the engine.
//!
//! F: a victim future (a query after an edit; a session call) is dropped at
//! its n-th `Pending` for EVERY n of the uncancelled run; separately every
//! executor activation of the run is made to panic (at every read position).
//! After each fault the follow-ups must complete with from-scratch values,
//! nothing else may panic, the engine must shut down, and (DB rig) a new
//! engine on the same store must answer from scratch.

use std::{
    future::Future,
    pin::Pin,
    sync::{Arc, Mutex},
    task::{Context, Poll},
};

use qbice::Config;
use serde_json::{Value, json};

use crate::{
    c01,
    memkv::{self, Grouping},
    pq::{Event, FAULT_MSG, Fault, Key, Program, QIn, QX, Shared, Val},
    report::{Report, Violation},
    rig::{self, Ref},
    xplore, ystore,
};

/// Drops the wrapped future at its n-th `Pending` (n >= 1); counts them.
pub struct CancelAt<F: Future> {
    inner: Option<Pin<Box<F>>>,
    at: usize,
    seen: Arc<Mutex<usize>>,
}

impl<F: Future> CancelAt<F> {
    pub fn new(f: F, at: usize, seen: Arc<Mutex<usize>>) -> Self {
        Self { inner: Some(Box::pin(f)), at, seen }
    }
}

impl<F: Future> Future for CancelAt<F> {
    type Output = Option<F::Output>;

    fn poll(mut self: Pin<&mut Self>, cx: &mut Context<'_>) -> Poll<Self::Output> {
        // cancellation armed on the k-th storage operation of ANY task (the
        // victim is woken for it): drop the future wherever its own and its
        // helpers' progress happens to be
        if ystore::cancellation_triggered() {
            self.inner = None;
            return Poll::Ready(None);
        }
        ystore::set_victim_waker(cx.waker().clone());
        let Some(f) = self.inner.as_mut() else {
            return Poll::Ready(None);
        };
        match f.as_mut().poll(cx) {
            Poll::Ready(v) => {
                self.inner = None;
                Poll::Ready(Some(v))
            }
            Poll::Pending => {
                let n = {
                    let mut s = self.seen.lock().unwrap();
                    *s += 1;
                    *s
                };
                if n == self.at {
                    // cancellation: drop the future right here
                    self.inner = None;
                    Poll::Ready(None)
                } else {
                    Poll::Pending
                }
            }
        }
    }
}

impl<F: Future> Unpin for CancelAt<F> {}

#[derive(Clone, Copy, Debug, PartialEq, Eq)]
pub enum Victim {
    /// query(root) after an edit (repair / firewall repair / backward
    /// projection / publishing are on its path)
    Query,
    /// a whole session: input_session(), two set_input, commit()
    Session,
    /// a session with refresh of the external inputs
    Refresh,
}

#[derive(Clone, Debug)]
pub struct P {
    pub prog: &'static str,
    pub db: bool,
    pub victim: Victim,
    /// storage operations that yield (suspension points)
    pub ymask: u32,
    /// a second task queries the root concurrently with the victim (lock
    /// contention turns the publishing steps into real suspension points)
    pub reader: bool,
    /// S part: keep exploring the schedule while the tasks that the dropped
    /// victim left behind run
    pub explore: bool,
}

fn program(name: &str) -> Program {
    c01::curated()
        .into_iter()
        .find(|(n, _)| *n == name)
        .map(|(_, p)| p)
        .unwrap_or_else(|| panic!("unknown program {name}"))
}

#[derive(Clone, Copy, Debug, PartialEq, Eq)]
pub enum FaultSpec {
    None,
    CancelAt(usize),
    /// cancel the victim at the k-th storage operation performed by any task
    /// after the victim started (its helper tasks included)
    CancelAtAccess(usize),
    Panic(Fault),
}

#[derive(Debug, Default)]
pub struct Outcome {
    /// suspension points of the victim (uncancelled run)
    pub pendings: usize,
    /// storage operations of all tasks while the victim ran
    pub accesses: usize,
    /// executor activations during the victim: (key, run number, reads)
    pub activations: Vec<(Key, usize, usize)>,
    pub violation: Option<String>,
    pub victim_completed: bool,
}

async fn scenario_generic<C: Config>(
    p: &P,
    eng: Arc<qbice::Engine<C>>,
    sh: Arc<Shared>,
    spec: FaultSpec,
    store: Option<memkv::Shared>,
) -> Outcome {
    let prog = sh.program.clone();
    let root = Key::C(prog.nodes.len() as u8 - 1);
    let mut r = Ref::default();
    let mut out = Outcome::default();
    let fail = |o: &mut Outcome, m: String| {
        if o.violation.is_none() {
            o.violation = Some(m);
        }
    };

    // ---- set-up: inputs, warm the graph, first edit ----
    ystore::set_yield_mask(0);
    {
        let mut s = eng.input_session().await;
        s.set_input(QIn(0), 0).await;
        s.set_input(QIn(1), 0).await;
        s.commit().await;
        r.set_input(0, 0);
        r.set_input(1, 0);
    }
    {
        let te = eng.clone().tracked().await;
        let _ = rig::query(&sh, &te, root).await;
        r.absorb_external_runs(&sh.take_events());
    }
    if p.victim == Victim::Query {
        let mut s = eng.input_session().await;
        s.set_input(QIn(0), 1).await;
        s.commit().await;
        r.set_input(0, 1);
    }
    xplore::settle().await;
    sh.take_events();
    let runs_before: std::collections::HashMap<Key, usize> =
        sh.log.lock().unwrap().runs.clone();
    let _ = xplore::take_panic_log();
    qbice_verif_rt::events::reset();

    // ---- the victim ----
    if let FaultSpec::Panic(f) = spec {
        *sh.fault.lock().unwrap() = Some(f);
    }
    ystore::set_yield_mask(p.ymask);
    if p.explore {
        xplore::exploring(true);
    }
    let reader_handle = if p.reader {
        xplore::exploring(true);
        let (eng3, sh3) = (eng.clone(), sh.clone());
        Some(shuttle::future::spawn(async move {
            let fut = async move {
                let te = eng3.clone().tracked().await;
                let v = rig::query(&sh3, &te, root).await;
                drop(te);
                v
            };
            // an injected executor panic reaches whichever task ran the
            // executor - possibly this one
            futures::FutureExt::catch_unwind(std::panic::AssertUnwindSafe(fut)).await.ok()
        }))
    } else {
        None
    };
    let seen = Arc::new(Mutex::new(0usize));
    let at = match spec {
        FaultSpec::CancelAt(n) => n,
        _ => usize::MAX,
    };
    ystore::arm_cancellation(match spec {
        FaultSpec::CancelAtAccess(k) => k,
        _ => 0,
    });
    let mut session_applied = false;
    let victim_result = {
        let (eng2, sh2) = (eng.clone(), sh.clone());
        let victim = p.victim;
        let fut = async move {
            match victim {
                Victim::Query => {
                    let te = eng2.clone().tracked().await;
                    let v = rig::query(&sh2, &te, root).await;
                    drop(te);
                    Some(v)
                }
                Victim::Session => {
                    let mut s = eng2.input_session().await;
                    s.set_input(QIn(0), 2).await;
                    s.set_input(QIn(1), 1).await;
                    s.commit().await;
                    None
                }
                Victim::Refresh => {
                    sh2.world.lock().unwrap()[0] = 1;
                    let mut s = eng2.input_session().await;
                    s.refresh::<QX>().await;
                    s.set_input(QIn(0), 2).await;
                    s.commit().await;
                    None
                }
            }
        };
        let wrapped = CancelAt::new(fut, at, seen.clone());
        let res = std::panic::AssertUnwindSafe(wrapped);
        futures::FutureExt::catch_unwind(res).await
    };
    let reader_value = match reader_handle {
        Some(h) => h.await.ok(),
        None => None,
    };
    // what the dropped victim left behind (the guarded rest of the
    // interrupted operation, the commit-on-drop task of a session) runs
    // while the schedule is still being explored, in every order
    if p.explore {
        for _ in 0..4 {
            qbice_verif_rt::tokio::task::yield_now().await;
        }
    }
    xplore::exploring(false);
    ystore::set_yield_mask(0);
    *sh.fault.lock().unwrap() = None;
    out.pendings = *seen.lock().unwrap();
    out.accesses = ystore::access_count();
    ystore::arm_cancellation(0);
    let mut reader_panicked = false;
    match reader_value {
        Some(Some(v)) => {
            let want = r.eval(&prog, root);
            if Some(v) != want {
                fail(&mut out, format!("concurrent reader got {v}, from scratch {want:?}"));
            }
        }
        Some(None) if matches!(spec, FaultSpec::Panic(_)) => reader_panicked = true,
        Some(None) => fail(&mut out, "concurrent reader panicked".to_string()),
        None if p.reader => fail(&mut out, "concurrent reader did not complete".to_string()),
        None => {}
    }

    // executor activations of the victim (for the fault enumeration)
    {
        let ev = sh.take_events();
        let mut reads: std::collections::HashMap<usize, (Key, usize)> =
            std::collections::HashMap::new();
        let mut counter = runs_before.clone();
        for e in &ev {
            match e {
                Event::Req { .. } | Event::FirstUnwind { .. } => {}
                Event::Enter { key, act, .. } => {
                    let c = counter.entry(*key).or_insert(0);
                    *c += 1;
                    reads.insert(*act, (*key, 0));
                    out.activations.push((*key, *c, 0));
                }
                Event::Read { act, .. } => {
                    if let Some(x) = reads.get_mut(act) {
                        x.1 += 1;
                        let (k, n) = *x;
                        if let Some(a) =
                            out.activations.iter_mut().rev().find(|a| a.0 == k)
                        {
                            a.2 = a.2.max(n);
                        }
                    }
                }
                Event::Exit { .. } => {}
            }
        }
        r.absorb_external_runs(&ev);
    }

    match (&victim_result, spec) {
        (Err(_), FaultSpec::Panic(_)) => {
            // the injected panic reached the caller: expected
        }
        (Err(e), _) => {
            let m = e
                .downcast_ref::<String>()
                .cloned()
                .or_else(|| e.downcast_ref::<&str>().map(|s| s.to_string()))
                .unwrap_or_else(|| "<non-string>".into());
            fail(&mut out, format!("the victim (or its drop) panicked: {m}"));
        }
        (Ok(Some(v)), FaultSpec::Panic(f)) => {
            // the faulted activation did not happen on this path, or the
            // engine swallowed the panic
            let happened = out
                .activations
                .iter()
                .any(|(k, run, reads)| *k == f.key && *run == f.on_run && *reads >= f.after_reads);
            if happened && p.victim == Victim::Query && !reader_panicked {
                fail(
                    &mut out,
                    format!(
                        "executor panic of {:?} did not reach the caller \
                         (query returned {v:?})",
                        f.key
                    ),
                );
            }
            if p.victim == Victim::Query {
                // the panic went elsewhere (or never happened): an ordinary answer
                let want = r.eval(&prog, root);
                if *v != want {
                    fail(&mut out, format!("victim query = {v:?}, from scratch {want:?}"));
                }
            }
            out.victim_completed = true;
        }
        (Ok(Some(v)), _) => {
            out.victim_completed = true;
            if p.victim == Victim::Query {
                let want = r.eval(&prog, root);
                if *v != want {
                    fail(&mut out, format!("victim query = {v:?}, from scratch {want:?}"));
                }
            } else {
                session_applied = true;
            }
        }
        (Ok(None), _) => {
            // cancelled: a session may or may not have taken effect
        }
    }

    // a session victim: find out what was committed by reading the inputs
    if p.victim != Victim::Query {
        let te = eng.clone().tracked().await;
        let a = rig::query(&sh, &te, Key::In(0)).await;
        let b = rig::query(&sh, &te, Key::In(1)).await;
        drop(te);
        let allowed: &[(Val, Val)] = match p.victim {
            Victim::Session => &[(0, 0), (2, 0), (2, 1)],
            _ => &[(0, 0), (2, 0)],
        };
        if !allowed.contains(&(a, b)) {
            fail(&mut out, format!("inputs after the victim session: ({a},{b})"));
        }
        if session_applied && (a, b) != *allowed.last().unwrap() {
            fail(&mut out, format!("completed session not applied: ({a},{b})"));
        }
        r.set_input(0, a);
        r.set_input(1, b);
        if p.victim == Victim::Refresh {
            // the refresh may or may not have been applied
            r.xsnap[0] = None;
        }
    }

    // ---- follow-ups ----
    let fu = async {
        let mut msgs: Vec<String> = Vec::new();
        let mut r = r.clone();
        // same query again, new tracked engine
        {
            let te = eng.clone().tracked().await;
            let v = rig::query(&sh, &te, root).await;
            r.absorb_external_runs(&sh.take_events());
            if r.xsnap[0].is_none() {
                r.xsnap[0] = Some(r.world[0]);
            }
            let want = r.eval(&prog, root);
            let x_ok = p.victim != Victim::Refresh;
            if x_ok && Some(v) != want {
                msgs.push(format!("follow-up query = {v}, from scratch {want:?}"));
            }
        }
        // edit + query
        {
            let mut s = eng.input_session().await;
            s.set_input(QIn(1), 1).await;
            s.set_input(QIn(0), 0).await;
            s.commit().await;
            r.set_input(1, 1);
            r.set_input(0, 0);
            let te = eng.clone().tracked().await;
            for j in (0..prog.nodes.len() as u8).rev() {
                let v = rig::query(&sh, &te, Key::C(j)).await;
                r.absorb_external_runs(&sh.take_events());
                let want = r.eval(&prog, Key::C(j));
                let reads_x = crate::hist::below(&prog, Key::C(j))
                    .iter()
                    .any(|k| matches!(k, Key::X(_)));
                if !(reads_x && p.victim == Victim::Refresh) && Some(v) != want {
                    msgs.push(format!(
                        "after a further edit: query C({j}) = {v}, from \
                         scratch {want:?}"
                    ));
                }
            }
        }
        (msgs, r)
    };
    let (msgs, r2) = fu.await;
    for m in msgs {
        fail(&mut out, m);
    }

    // nothing else panicked
    // the injected panic may be re-raised by the engine when it joins the
    // task that ran the executor (payload wrapped in a JoinError)
    let injected = matches!(spec, FaultSpec::Panic(_));
    let expected = |m: &str| {
        m.contains(FAULT_MSG) || (injected && m.contains("JoinError"))
    };
    for m in xplore::take_panic_log() {
        if !expected(&m) {
            fail(&mut out, format!("unexpected panic: {m}"));
        }
    }
    for m in qbice_verif_rt::events::swallowed_panics() {
        if !expected(&m) {
            fail(&mut out, format!("panic swallowed by a detached task: {m}"));
        }
    }

    // ---- shutdown (+ reopen on the same store) ----
    drop(eng);
    if let Some(store) = store {
        let sh3 = Shared::new(prog.clone());
        *sh3.world.lock().unwrap() = *sh.world.lock().unwrap();
        let eng2 = rig::new_db_engine(&sh3, store, 2, 1).await;
        let te = eng2.clone().tracked().await;
        let mut rr = r2.clone();
        for j in (0..prog.nodes.len() as u8).rev() {
            let v = rig::query(&sh3, &te, Key::C(j)).await;
            rr.absorb_external_runs(&sh3.take_events());
            let reads_x = crate::hist::below(&prog, Key::C(j))
                .iter()
                .any(|k| matches!(k, Key::X(_)));
            let want = rr.eval(&prog, Key::C(j));
            if !reads_x && Some(v) != want {
                fail(
                    &mut out,
                    format!(
                        "reopened engine: query C({j}) = {v}, from scratch \
                         {want:?} (persistence stalled or corrupted)"
                    ),
                );
            }
        }
        drop(te);
        drop(eng2);
    }
    out
}

pub async fn scenario(p: &P, spec: FaultSpec) -> Outcome {
    xplore::exploring(false);
    let prog = program(p.prog);
    let sh = Shared::new(prog);
    if p.db {
        let store = memkv::new_state(Grouping::Never, false);
        let eng = rig::new_db_engine(&sh, store.clone(), 2, 1).await;
        scenario_generic(p, eng, sh, spec, Some(store)).await
    } else {
        let eng = rig::new_mem_engine_opt(&sh, true).await;
        scenario_generic(p, eng, sh, spec, None).await
    }
}

pub fn params(thorough: bool) -> Vec<P> {
    let mut v = Vec::new();
    let progs: &[&str] = if thorough {
        &[
            "chain-cutoff",
            "firewall-proj",
            "firewall-2proj-2cons",
            "diamond-unord",
            "diamond-join",
            "two-firewalls-chain",
            "external-firewall",
            "proj-of-proj",
        ]
    } else {
        &["chain-cutoff", "firewall-proj", "diamond-unord", "external-firewall"]
    };
    for prog in progs {
        for db in [false, true] {
            v.push(P {
                prog,
                db,
                victim: Victim::Query,
                ymask: ystore::Y_GET | ystore::Y_SET,
                reader: false, explore: false
            });
        }
        v.push(P {
            prog,
            db: true,
            victim: Victim::Session,
            ymask: ystore::Y_GET | ystore::Y_SET,
            reader: false, explore: false
        });
    }
    if std::env::var("VH_C05_PUT_YIELDS").is_ok() {
        for q in v.iter_mut() {
            q.ymask = ystore::Y_ALL;
        }
    }
    v.push(P {
        prog: "external-firewall",
        db: true,
        victim: Victim::Refresh,
        ymask: ystore::Y_GET | ystore::Y_SET,
        reader: false, explore: false
    });
    v.push(P {
        prog: "external-chain",
        db: false,
        victim: Victim::Refresh,
        ymask: ystore::Y_GET | ystore::Y_SET,
        reader: false, explore: false
    });
    v
}

/// scenarios explored under the scheduler (victim + concurrent reader)
pub fn params_s(thorough: bool) -> Vec<(P, usize)> {
    let progs: &[&str] = if thorough {
        &["firewall-proj", "diamond-unord", "chain-cutoff", "firewall-2proj-2cons"]
    } else {
        &["firewall-proj", "diamond-unord"]
    };
    let mut v: Vec<(P, usize)> = progs
        .iter()
        .map(|prog| {
            (
                P {
                    prog,
                    db: false,
                    victim: Victim::Query,
                    ymask: ystore::Y_GET | ystore::Y_SET,
                    reader: true, explore: false
                },
                if thorough { 2 } else { 1 },
            )
        })
        .collect();
    // a cancelled session: the tasks it leaves behind (the guarded rest of
    // the interrupted operation, the commit-on-drop task) in every order
    for (prog, db, victim) in [
        ("firewall-proj", false, Victim::Session),
        ("firewall-proj", true, Victim::Session),
        ("external-firewall", false, Victim::Refresh),
    ] {
        v.push((
            P { prog, db, victim, ymask: ystore::Y_GET | ystore::Y_SET, reader: false, explore: true },
            // the pipeline threads of the cached engine multiply the choice points
            if db { if thorough { 2 } else { 1 } } else if thorough { 3 } else { 2 },
        ));
    }
    v
}

thread_local! {
    static POOL: xplore::Pool = xplore::Pool::new();
}

fn run(p: &P, spec: FaultSpec) -> Result<Outcome, String> {
    let p = p.clone();
    POOL.with(|pool| {
        pool.run(move || shuttle::future::block_on(scenario(&p, spec)))
    })
    .map_err(|f| format!("{:?}: {}", f.kind, f.msg))
}

fn p_json(p: &P) -> Value {
    json!({"program": p.prog, "storage": if p.db { "DbBacked<MemKv>" } else { "in-memory" },
           "victim": format!("{:?}", p.victim), "yield_mask": p.ymask})
}

pub fn check() -> i32 {
    let mut rep = Report::new("C05", "fault_enumeration");
    let thorough = rep.is_thorough();
    rep.rule = "for every scenario (program x storage rig x victim): the \
                victim future — query(root) after an edit, or a whole input \
                session (input_session, set_input x2, commit), or a session \
                with refresh — is dropped at its n-th Pending for EVERY n in \
                1..=N (N = suspension points of the uncancelled run; storage \
                reads and the engine's own yields are suspension points), and \
                separately EVERY executor activation of the uncancelled run \
                is made to panic before its first read and after each read. \
                After each fault: the drop itself does not panic, an executor \
                panic reaches the caller, nothing else panics (process-wide \
                hook + panics swallowed by detached tasks), the same query \
                again and an edit + query of every node return the \
                from-scratch values, the engine shuts down, and (DB rig) a new \
                engine on the same store answers from scratch. S: victim + \
                concurrent reader of the same root, cancellation at every \
                point and every executor panic, under every schedule within \
                the deviation bound. distinct = distinct (scenario, fault) \
                pairs"
        .into();
    rep.assumptions = vec![
        "sequential: one victim at a time under the deterministic schedule \
         (the tasks the engine spawns run when the victim is suspended)"
            .into(),
        "storage writes (insert/remove futures of the shipped engines never \
         suspend) are not cancellation points; storage reads are"
            .into(),
    ];
    let threads = crate::report::threads();
    let items: Vec<(usize, P)> = params(thorough).into_iter().enumerate().collect();
    let queue = Arc::new(Mutex::new(items));
    let tot = Arc::new(Mutex::new((0u64, 0u64, 0u64, Vec::<Value>::new())));
    let viol: Arc<Mutex<Vec<Violation>>> = Arc::new(Mutex::new(Vec::new()));
    std::thread::scope(|sc| {
        for _ in 0..threads {
            let (queue, tot, viol) = (queue.clone(), tot.clone(), viol.clone());
            std::thread::Builder::new()
                .stack_size(32 << 20)
                .spawn_scoped(sc, move || {
                    loop {
                        let it = queue.lock().unwrap().pop();
                        let Some((idx, p)) = it else { break };
                        let base = match run(&p, FaultSpec::None) {
                            Ok(o) => o,
                            Err(e) => {
                                viol.lock().unwrap().push(Violation {
                                    what: format!("{}: baseline run failed: {e}", p_json(&p)),
                                    tags: vec!["baseline".into()],
                                    replay: json!({"check": "c05", "thorough": thorough,
                                        "scenario_index": idx, "fault": "none"}),
                                });
                                continue;
                            }
                        };
                        let mut specs: Vec<FaultSpec> = vec![FaultSpec::None];
                        for n in 1..=base.pendings {
                            specs.push(FaultSpec::CancelAt(n));
                        }
                        // ... and at every storage operation of any task
                        // (the victim's helper tasks are somewhere in the
                        // middle of their work then)
                        for k in 1..=base.accesses {
                            specs.push(FaultSpec::CancelAtAccess(k));
                        }
                        for (k, run_no, reads) in &base.activations {
                            for after in 0..=*reads {
                                specs.push(FaultSpec::Panic(Fault {
                                    key: *k,
                                    on_run: *run_no,
                                    after_reads: after,
                                }));
                            }
                        }
                        let mut cancels = 0u64;
                        let mut panics = 0u64;
                        for spec in specs {
                            let r = run(&p, spec);
                            match spec {
                                FaultSpec::CancelAt(_) | FaultSpec::CancelAtAccess(_) => cancels += 1,
                                FaultSpec::Panic(_) => panics += 1,
                                FaultSpec::None => {}
                            }
                            let bad = match r {
                                Ok(o) => o.violation,
                                Err(e) => Some(format!(
                                    "did not complete: {e}"
                                )),
                            };
                            if let Some(m) = bad {
                                viol.lock().unwrap().push(Violation {
                                    what: format!("{} fault {:?}: {m}", p_json(&p), spec),
                                    tags: tags_of(&p, &spec, &m),
                                    replay: json!({"check": "c05", "thorough": thorough,
                                        "scenario_index": idx,
                                        "fault": format!("{spec:?}"),
                                        "cancel_at": match spec { FaultSpec::CancelAt(n) => json!(n), _ => json!(null) },
                                        "cancel_at_access": match spec { FaultSpec::CancelAtAccess(n) => json!(n), _ => json!(null) },
                                        "panic": match spec { FaultSpec::Panic(f) => json!({"key": format!("{:?}", f.key), "on_run": f.on_run, "after_reads": f.after_reads}), _ => json!(null) },
                                    }),
                                });
                            }
                        }
                        let mut t = tot.lock().unwrap();
                        t.0 += cancels + panics + 1;
                        t.1 += cancels;
                        t.2 += panics;
                        t.3.push(json!({"scenario": p_json(&p),
                            "suspension_points": base.pendings,
                            "executor_activations": base.activations.len(),
                            "cancellations": cancels, "injected_panics": panics}));
                    }
                })
                .unwrap();
        }
    });
    let t = tot.lock().unwrap();
    rep.evaluations = t.0;
    rep.distinct_nontrivial = t.1 + t.2;
    rep.extra.insert("cancellation_points".into(), json!(t.1));
    rep.extra.insert("injected_panics".into(), json!(t.2));
    rep.extra.insert("scenarios".into(), json!(t.3));
    if let Some(s) = t.3.first() {
        rep.sample(s.clone());
    }
    drop(t);
    for v in viol.lock().unwrap().drain(..) {
        rep.violation(v);
    }
    // victim + concurrent reader under the scheduler
    let mut sout = Vec::new();
    for (idx, (p, d)) in params_s(thorough).iter().enumerate() {
        let Some(o) = crate::report::explore_isolated(
            &mut rep, "c05s", idx, p.prog, thorough,
        ) else {
            continue;
        };
        rep.evaluations += o.executions;
        rep.distinct_nontrivial += o.sigs;
        sout.push(json!({"scenario": p_json(p), "bound": d,
            "schedules_x_cancel_points": o.executions,
            "failures": o.failures.len()}));
        if let Some(c) = &o.cap_hit {
            rep.cap(c.clone());
        }
        if let Some(m) = o.machinery_error {
            rep.machinery_errors.push(m);
        }
        for f in &o.failures {
            rep.violation(Violation {
                what: format!("S {} {:?}: {}", p.prog, f.kind, f.msg),
                tags: vec![format!("{:?}", f.kind)],
                replay: json!({"check": "c05s", "thorough": thorough,
                    "scenario_index": idx,
                    "cancel_at": f.msg.split("cancel_at=").nth(1)
                        .and_then(|r| r.split(':').next())
                        .and_then(|n| n.parse::<usize>().ok()),
                    "panic_at": f.msg.split("panic_at=").nth(1)
                        .and_then(|r| r.split(':').next()),
                    "schedule": crate::report::sched_json(&f.schedule)}),
            });
        }
    }
    rep.extra.insert("s_scenarios".into(), json!(sout));
    // executors that leave helper tasks behind: the engine must wait for
    // them before it publishes (never half-published)
    let mut hout = Vec::new();
    for (idx, (p, d)) in crate::c06::d_params(thorough).iter().enumerate() {
        let Some(o) = crate::report::explore_isolated(&mut rep, "c06d", idx, "detached-helpers", thorough) else {
            continue;
        };
        rep.evaluations += o.executions;
        rep.distinct_nontrivial += o.sigs;
        hout.push(json!({"graph": p.g.describe(), "detached": p.detach, "roots": p.roots, "bound": d,
            "schedules": o.executions, "distinct_outcomes": o.outcomes, "failures": o.failures.len()}));
        if let Some(c) = &o.cap_hit {
            rep.cap(c.clone());
        }
        if let Some(m) = o.machinery_error {
            rep.machinery_errors.push(m);
        }
        for f in &o.failures {
            let mut tags = vec![format!("{:?}", f.kind)];
            if f.msg.contains("its executor was cancelled together with its caller") {
                tags.push("F18-cycle-member-cancelled-with-its-caller".into());
            }
            rep.violation(Violation {
                what: format!("helpers {} detached {:?} roots {:?} {:?}: {}", p.g.describe(), p.detach, p.roots, f.kind, f.msg),
                tags,
                replay: json!({"check": "c06d", "thorough": thorough, "scenario_index": idx,
                    "schedule": crate::report::sched_json(&f.schedule)}),
            });
        }
    }
    rep.extra.insert("helper_scenarios".into(), json!(hout));
    rep.finish()
}

/// explore (victim cancelled at n) x (schedules with <= d deviations)
pub fn s_scenario(p: P, n: usize) -> Arc<dyn Fn() + Send + Sync> {
    s_scenario_spec(p, FaultSpec::CancelAt(n))
}

/// explore (fault) x (schedules with <= d deviations)
pub fn s_scenario_spec(p: P, spec: FaultSpec) -> Arc<dyn Fn() + Send + Sync> {
    Arc::new(move || {
        let p = p.clone();
        let o = shuttle::future::block_on(scenario(&p, spec));
        if let Some(m) = o.violation {
            xplore::report_violation(m);
        }
        xplore::observe(format!("{}", o.victim_completed));
    })
}

pub fn child_s(idx: usize) {
    let thorough = crate::report::tier() == "thorough";
    let (p, d) = params_s(thorough)[idx].clone();
    // suspension points under the default schedule
    let p2 = p.clone();
    let base = xplore::run_default(move || {
        shuttle::future::block_on(scenario(&p2, FaultSpec::None))
    });
    let (pend, acts) = base.map(|o| (o.pendings, o.activations)).unwrap_or((10, Vec::new()));
    let n_max = pend + 4;
    let mut total: Option<xplore::Outcome> = None;
    // an executor panic while the other task is running / waiting: every
    // activation of the uncancelled run, before its first read and after
    // each read, under every schedule within the bound (a waiter that is
    // never woken is a deadlock of the execution)
    let mut panic_points = 0;
    if p.reader && p.victim == Victim::Query {
        for (k, run_no, reads) in &acts {
            for after in 0..=*reads {
                panic_points += 1;
                let f = Fault { key: *k, on_run: *run_no, after_reads: after };
                let mut cfg = xplore::Cfg::new(d);
                cfg.max_failures = 20;
                let mut o = xplore::explore_parallel(
                    &cfg,
                    crate::report::threads(),
                    s_scenario_spec(p.clone(), FaultSpec::Panic(f)),
                );
                for fl in o.failures.iter_mut() {
                    fl.msg = format!("panic_at={:?}/{}/{}: {}", f.key, f.on_run, f.after_reads, fl.msg);
                }
                match &mut total {
                    None => total = Some(o),
                    Some(t) => xplore::merge_into(t, o),
                }
            }
        }
    }
    for n in 1..=n_max {
        let mut cfg = xplore::Cfg::new(d);
        cfg.max_failures = 20;
        let mut o = xplore::explore_parallel(
            &cfg,
            crate::report::threads(),
            s_scenario(p.clone(), n),
        );
        for f in o.failures.iter_mut() {
            f.msg = format!("cancel_at={n}: {}", f.msg);
        }
        match &mut total {
            None => total = Some(o),
            Some(t) => xplore::merge_into(t, o),
        }
    }
    let mut v = total.unwrap().to_json();
    v["cancel_points"] = json!(n_max);
    v["panic_points"] = json!(panic_points);
    crate::report::emit_child_result(&v);
}

fn tags_of(_p: &P, _spec: &FaultSpec, m: &str) -> Vec<String> {
    let mut t = Vec::new();
    if m.contains("WriteBuffer dropped while still active") {
        t.push("active-write-batch-dropped".to_string());
    }
    t
}

pub fn replay(v: &Value) -> i32 {
    let thorough = v["thorough"].as_bool().unwrap_or(false);
    if v["check"] == "c05s" {
        let (p, _) = params_s(thorough)[v["scenario_index"].as_u64().unwrap() as usize].clone();
        let n = v["cancel_at"].as_u64().unwrap_or(1) as usize;
        let spec = match v["panic_at"].as_str() {
            Some(pa) => {
                // "C(2)/1/0"
                let mut it = pa.split('/');
                let ks = it.next().unwrap_or("");
                let num: u8 =
                    ks.trim_end_matches(')').rsplit('(').next().and_then(|s| s.parse().ok()).unwrap_or(0);
                let key = if ks.starts_with('X') { Key::X(num) } else { Key::C(num) };
                FaultSpec::Panic(Fault {
                    key,
                    on_run: it.next().and_then(|s| s.parse().ok()).unwrap_or(1),
                    after_reads: it.next().and_then(|s| s.parse().ok()).unwrap_or(0),
                })
            }
            None => FaultSpec::CancelAt(n),
        };
        let s = crate::report::sched_from_json(&v["schedule"]);
        let o1 = xplore::replay(&s, s_scenario_spec(p.clone(), spec));
        let o2 = xplore::replay(&s, s_scenario_spec(p, spec));
        let m1: Vec<_> = o1.failures.iter().map(|f| f.msg.clone()).collect();
        let m2: Vec<_> = o2.failures.iter().map(|f| f.msg.clone()).collect();
        if m1 != m2 {
            eprintln!("replay is not deterministic");
            return 2;
        }
        for m in &m1 {
            println!("replayed failure: {m}");
        }
        return if m1.is_empty() { 0 } else { 1 };
    }
    let p = params(thorough)[v["scenario_index"].as_u64().unwrap() as usize].clone();
    let spec = if let Some(n) = v["cancel_at"].as_u64() {
        FaultSpec::CancelAt(n as usize)
    } else if let Some(n) = v["cancel_at_access"].as_u64() {
        FaultSpec::CancelAtAccess(n as usize)
    } else if v["panic"].is_object() {
        let ks = v["panic"]["key"].as_str().unwrap_or("");
        let num: u8 = ks
            .trim_end_matches(')')
            .rsplit('(')
            .next()
            .and_then(|s| s.parse().ok())
            .unwrap_or(0);
        let key = if ks.starts_with("X") { Key::X(num) } else { Key::C(num) };
        FaultSpec::Panic(Fault {
            key,
            on_run: v["panic"]["on_run"].as_u64().unwrap_or(1) as usize,
            after_reads: v["panic"]["after_reads"].as_u64().unwrap_or(0) as usize,
        })
    } else {
        FaultSpec::None
    };
    println!("{} fault {:?}", p_json(&p), spec);
    match run(&p, spec) {
        Ok(o) => match o.violation {
            Some(m) => {
                println!("replayed failure: {m}");
                1
            }
            None => 0,
        },
        Err(e) => {
            println!("replayed failure: {e}");
            1
        }
    }
}
