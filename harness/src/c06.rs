//! C06 — dependency cycles are detected: they terminate with cycle defaults.

use std::sync::{Arc, Mutex};

use serde_json::{Value, json};

use crate::{
    hist::{self, Op, W},
    pq::{Body, Dep, Key, Node, Program, QIn, SCC_F, SCC_N, Shared, Style, Val},
    report::{Report, Violation, sched_from_json, sched_json},
    rig, xplore, ystore,
};

/// edge kind between two nodes
#[derive(Clone, Copy, Debug, PartialEq, Eq)]
pub enum E {
    No,
    Fixed,
    /// present iff input bit b is non-zero
    Sw(u8),
}

#[derive(Clone, Debug)]
pub struct G {
    pub n: usize,
    /// adj[i][j]: node i reads node j
    pub adj: Vec<Vec<E>>,
    pub fw: Vec<bool>,
}

impl G {
    pub fn program(&self) -> Program {
        let nodes = (0..self.n)
            .map(|i| {
                let mut es = Vec::new();
                for j in 0..self.n {
                    match self.adj[i][j] {
                        E::No => {}
                        E::Fixed => es.push((None, Dep::C(j as u8))),
                        E::Sw(b) => es.push((Some(b), Dep::C(j as u8))),
                    }
                }
                Node {
                    style: if self.fw[i] { Style::F } else { Style::N },
                    body: Body::Edges(i as Val + 1, es),
                }
            })
            .collect();
        Program { nodes }
    }

    pub fn describe(&self) -> String {
        let mut s = String::new();
        for i in 0..self.n {
            for j in 0..self.n {
                match self.adj[i][j] {
                    E::No => {}
                    E::Fixed => s.push_str(&format!("{i}->{j} ")),
                    E::Sw(b) => s.push_str(&format!("{i}-[in{b}]->{j} ")),
                }
            }
        }
        s.push_str(&format!("fw={:?}", self.fw));
        s
    }

    fn enabled(&self, inputs: [Val; 2]) -> Vec<Vec<bool>> {
        (0..self.n)
            .map(|i| {
                (0..self.n)
                    .map(|j| match self.adj[i][j] {
                        E::No => false,
                        E::Fixed => true,
                        E::Sw(b) => inputs[b as usize] != 0,
                    })
                    .collect()
            })
            .collect()
    }

    /// The statement of the property, literally: a node on a cycle of the
    /// input-determined dependency graph evaluates to its cycle default;
    /// every other node as from scratch with those defaults substituted.
    pub fn oracle(&self, inputs: [Val; 2]) -> Vec<Val> { self.oracle_detached(inputs, &[]) }

    /// `detached`: nodes whose reads happen in helper tasks that outlive the
    /// executor; their edges are dependencies (and can close cycles) but do
    /// not contribute to the value.
    pub fn oracle_detached(&self, inputs: [Val; 2], detached: &[u8]) -> Vec<Val> {
        let en = self.enabled(inputs);
        let n = self.n;
        // reach[i][j]: path of length >= 1 from i to j
        let mut reach = en.clone();
        for k in 0..n {
            for i in 0..n {
                for j in 0..n {
                    if reach[i][k] && reach[k][j] {
                        reach[i][j] = true;
                    }
                }
            }
        }
        let on_cycle: Vec<bool> = (0..n).map(|i| reach[i][i]).collect();
        let mut val: Vec<Option<Val>> = vec![None; n];
        for i in 0..n {
            if on_cycle[i] {
                val[i] = Some(if self.fw[i] { SCC_F } else { SCC_N });
            }
        }
        // the rest is acyclic: evaluate by repeated passes
        for _ in 0..=n {
            for i in 0..n {
                if val[i].is_some() {
                    continue;
                }
                let mut s = i as Val + 1;
                let mut ok = true;
                for j in 0..n {
                    if en[i][j] {
                        match val[j] {
                            Some(_) if detached.contains(&(i as u8)) => {}
                            Some(v) => s = (s + v) % 5,
                            None => ok = false,
                        }
                    }
                }
                if ok {
                    val[i] = Some(s);
                }
            }
        }
        val.into_iter().map(|v| v.expect("acyclic remainder")).collect()
    }
}

fn kinds(switches: &[u8]) -> Vec<E> {
    let mut v = vec![E::No, E::Fixed];
    for b in switches {
        v.push(E::Sw(*b));
    }
    v
}

/// all graphs on n nodes with at most `max_edges` edges
pub fn graphs(n: usize, max_edges: usize, switches: &[u8], styles: bool) -> Vec<G> {
    let ks = kinds(switches);
    let cells = n * n;
    let mut out = Vec::new();
    let mut cur = vec![0usize; cells];
    loop {
        let edges = cur.iter().filter(|k| **k != 0).count();
        let has_switch = cur.iter().any(|k| *k >= 2);
        if edges >= 1 && edges <= max_edges && (has_switch || edges <= 3) {
            let adj: Vec<Vec<E>> = (0..n)
                .map(|i| (0..n).map(|j| ks[cur[i * n + j]]).collect())
                .collect();
            let nst = if styles { 1usize << n } else { 1 };
            for m in 0..nst {
                out.push(G {
                    n,
                    adj: adj.clone(),
                    fw: (0..n).map(|i| m >> i & 1 == 1).collect(),
                });
            }
        }
        // next
        let mut i = 0;
        loop {
            if i == cells {
                return out;
            }
            cur[i] += 1;
            if cur[i] < ks.len() {
                break;
            }
            cur[i] = 0;
            i += 1;
        }
    }
}

fn perms(n: usize) -> Vec<Vec<u8>> {
    fn rec(cur: &mut Vec<u8>, n: usize, out: &mut Vec<Vec<u8>>) {
        if cur.len() == n {
            out.push(cur.clone());
            return;
        }
        for i in 0..n as u8 {
            if !cur.contains(&i) {
                cur.push(i);
                rec(cur, n, out);
                cur.pop();
            }
        }
    }
    let mut out = Vec::new();
    rec(&mut Vec::new(), n, &mut out);
    out
}

pub fn alphabet(g: &G) -> Vec<Op> {
    let mut ops = Vec::new();
    let uses = |b: u8| g.adj.iter().flatten().any(|e| *e == E::Sw(b));
    for b in 0..2u8 {
        if uses(b) {
            for v in [1, 0] {
                ops.push(Op::Session { writes: vec![W::Set(b, v)], commit: true });
            }
        }
    }
    for p in perms(g.n) {
        ops.push(Op::Query(p.iter().map(|j| Key::C(*j)).collect()));
    }
    for j in 0..g.n as u8 {
        ops.push(Op::Query(vec![Key::C(j)]));
    }
    ops
}

/// run one history sequentially on a fresh in-memory engine
pub async fn run(g: &G, h: &[Op]) -> hist::RunResult {
    xplore::exploring(false);
    ystore::set_yield_mask(0);
    ystore::set_shadow(true);
    let p = g.program();
    let sh = Shared::new(p.clone());
    let eng = rig::new_mem_engine(&sh).await;
    let mut inputs: [Val; 2] = [0, 0];
    let mut findings = Vec::new();
    let mut sessions = 1u64;
    {
        let mut s = eng.input_session().await;
        s.set_input(QIn(0), 0).await;
        s.set_input(QIn(1), 0).await;
        s.commit().await;
    }
    for (i, op) in h.iter().enumerate() {
        match op {
            Op::Session { writes, .. } => {
                let mut s = eng.input_session().await;
                for w in writes {
                    if let W::Set(b, v) = w {
                        s.set_input(QIn(*b), *v).await;
                        inputs[*b as usize] = *v;
                    }
                }
                s.commit().await;
                sessions += 1;
            }
            Op::Query(keys) => {
                let want = g.oracle(inputs);
                let te = eng.clone().tracked().await;
                for k in keys {
                    let Key::C(j) = k else { continue };
                    let v = rig::query(&sh, &te, *k).await;
                    if v != want[*j as usize] {
                        findings.push(hist::Finding {
                            property: "C06",
                            step: i,
                            fstep: i,
                            what: format!(
                                "query C({j}) = {v}, the property demands {} \
                                 (inputs {inputs:?}, all expected {want:?})",
                                want[*j as usize]
                            ),
                            key: Some(*k),
                            got: Some(v),
                            ..Default::default()
                        });
                    }
                }
                drop(te);
            }
            _ => {}
        }
        let evs = sh.take_events();
        if std::env::var("VH_C06_DEBUG").is_ok() {
            let s: Vec<String> = evs.iter().map(|e| match e {
                crate::pq::Event::Enter { key, .. } => format!("E{key:?}"),
                crate::pq::Event::Exit { key, val, .. } => format!("X{key:?}={val:?}"),
                crate::pq::Event::Read { dep, val, .. } => format!("R{dep:?}={val}"),
                crate::pq::Event::Req { key, dep } => format!("Q{key:?}>{dep:?}"),
                crate::pq::Event::FirstUnwind { edges } => format!("U{edges}"),
            }).collect();
            eprintln!("step {i} {}: {}", op.short(), s.join(" "));
            if std::env::var("VH_C06_DEBUG").as_deref() == Ok("2") {
                for (k, v) in ystore::shadow_dump() {
                    eprintln!("      {k} = {v}");
                }
            }
        }
    }
    let dump = ystore::shadow_dump();
    ystore::set_shadow(false);
    let mut canon = String::new();
    for (k, v) in &dump {
        canon.push_str(k);
        canon.push('=');
        canon.push_str(&v.replace(&format!("Timestamp({sessions})"), "T(now)"));
        canon.push('\n');
    }
    canon.push_str(&format!("{inputs:?}"));
    drop(eng);
    hist::RunResult {
        findings,
        canon,
        activations: 0,
        transitions: h.len(),
        act_log: vec![],
        values: vec![],
    }
}

thread_local! {
    static POOL: xplore::Pool = xplore::Pool::new();
}

/// input bits in force at step `step` of history `h`
fn inputs_after(h: &[Op], step: usize) -> [Val; 2] {
    let mut inputs = [0, 0];
    for op in h.iter().take(step + 1) {
        if let Op::Session { writes, .. } = op {
            for w in writes {
                if let W::Set(b, v) = w {
                    inputs[*b as usize] = *v;
                }
            }
        }
    }
    inputs
}

pub fn universe(thorough: bool) -> Vec<G> {
    let mut v = Vec::new();
    v.extend(graphs(1, 1, &[0], true));
    v.extend(graphs(2, 4, &[0, 1], true));
    if thorough {
        v.extend(graphs(3, 4, &[0], true));
    } else {
        v.extend(graphs(3, 3, &[0], false));
    }
    v
}

// ---------------------------------------------------------------------------
// S: two tasks enter one SCC from different members
// ---------------------------------------------------------------------------

#[derive(Clone, Debug)]
pub struct SP {
    pub g: G,
    pub roots: Vec<u8>,
    pub inputs: [Val; 2],
    /// nodes that read their targets concurrently
    pub join: Vec<u8>,
    /// nodes that read their targets in spawned helper tasks (joined)
    pub spawn: Vec<u8>,
    /// nodes whose helper tasks are not joined by the executor
    pub detach: Vec<u8>,
}

pub fn s_scenario(p: SP) -> Arc<dyn Fn() + Send + Sync> {
    Arc::new(move || {
        let p = p.clone();
        shuttle::future::block_on(async move {
            xplore::exploring(false);
            ystore::set_yield_mask(0);
            let prog = p.g.program();
            let sh = Shared::new_yielding(prog.clone());
            *sh.join_nodes.lock().unwrap() = p.join.clone();
            *sh.spawn_nodes.lock().unwrap() = p.spawn.clone();
            *sh.detach_nodes.lock().unwrap() = p.detach.clone();
            let eng = rig::new_mem_engine_opt(&sh, true).await;
            {
                let mut s = eng.input_session().await;
                s.set_input(QIn(0), p.inputs[0]).await;
                s.set_input(QIn(1), p.inputs[1]).await;
                s.commit().await;
            }
            xplore::settle().await;
            xplore::exploring(true);
            let res: Arc<Mutex<Vec<(u8, Val)>>> = Arc::new(Mutex::new(Vec::new()));
            let mut hs = Vec::new();
            for r in &p.roots {
                let (eng, sh, res, r) = (eng.clone(), sh.clone(), res.clone(), *r);
                hs.push(shuttle::future::spawn(async move {
                    let te = eng.clone().tracked().await;
                    let v = rig::query(&sh, &te, Key::C(r)).await;
                    res.lock().unwrap().push((r, v));
                }));
            }
            for h in hs {
                let _ = h.await;
            }
            xplore::exploring(false);
            // nodes whose executor had been entered before the first executor
            // was unwound: the cycle detection saw them in flight, so the
            // "dependency read after the unwinding is never recorded" excuse
            // (known finding F8) does not apply to them in this execution
            // callee registrations the engine had made when the first
            // executor was unwound (hook in register_callee, feature verif) =
            // the wait-for graph the cycle detection could see. A node on a
            // cycle of THAT graph must get its default; the "dependency read
            // after the unwinding is never recorded" excuse (known finding F8)
            // applies only to nodes that are on a cycle solely through reads
            // registered later.
            let n = p.g.n;
            let mut req = vec![vec![false; n]; n];
            let evs = sh.take_events();
            let first_cycle = qbice_verif_rt::events::first_cycle_edges();
            let edges = qbice_verif_rt::events::take_edges();
            let visible = first_cycle.unwrap_or(0).min(edges.len());
            let ids: Vec<(u128, u128)> = (0..n as u8).map(|j| rig::query_id_of(&prog, Key::C(j))).collect();
            for (a, b) in &edges[..visible] {
                if let (Some(i), Some(j)) = (ids.iter().position(|x| x == a), ids.iter().position(|x| x == b)) {
                    req[i][j] = true;
                }
            }
            if std::env::var("VH_C06_DEBUG").is_ok() {
                let s: Vec<String> = evs.iter().map(|e| match e {
                    crate::pq::Event::Enter { key, .. } => format!("E{key:?}"),
                    crate::pq::Event::Exit { key, val, .. } => format!("X{key:?}={val:?}"),
                    crate::pq::Event::Read { dep, val, .. } => format!("R{dep:?}={val}"),
                    crate::pq::Event::Req { key, dep } => format!("Q{key:?}>{dep:?}"),
                    crate::pq::Event::FirstUnwind { edges } => format!("U{edges}"),
                }).collect();
                let mut vis: Vec<String> = Vec::new();
                for i in 0..n {
                    for j in 0..n {
                        if req[i][j] {
                            vis.push(format!("{i}>{j}"));
                        }
                    }
                }
                eprintln!("{} | visible {}", s.join(" "), vis.join(","));
            }
            for k in 0..n {
                for i in 0..n {
                    for j in 0..n {
                        if req[i][k] && req[k][j] {
                            req[i][j] = true;
                        }
                    }
                }
            }
            let in_flight: Vec<bool> = (0..n).map(|i| req[i][i]).collect();
            // did the node's executor run to completion during the concurrent
            // phase (its result was what the engine had to publish or replace)?
            let mut completed = vec![false; n];
            for e in &evs {
                if let crate::pq::Event::Exit { key: Key::C(j), val: Some(_), .. } = e {
                    completed[*j as usize] = true;
                }
            }
            let mark = |j: usize| {
                if !in_flight[j] {
                    ""
                } else if completed[j] {
                    " [on a cycle of the callee registrations made before the cycle was detected; its executor completed]"
                } else {
                    " [on a cycle of the callee registrations made before the cycle was detected; its executor was cancelled together with its caller]"
                }
            };
            let want = p.g.oracle_detached(p.inputs, &p.detach);
            for (r, v) in res.lock().unwrap().iter() {
                if *v != want[*r as usize] {
                    xplore::report_violation(format!(
                        "concurrent query C({r}) = {v}, the property demands \
                         {} (expected all {want:?}){}",
                        want[*r as usize],
                        mark(*r as usize)
                    ));
                }
            }
            // afterwards every node is as the property says
            let te = eng.clone().tracked().await;
            let mut fin = Vec::new();
            for j in 0..p.g.n as u8 {
                let v = rig::query(&sh, &te, Key::C(j)).await;
                fin.push(v);
                if v != want[j as usize] {
                    xplore::report_violation(format!(
                        "after concurrent entry: query C({j}) = {v}, the \
                         property demands {}{}",
                        want[j as usize],
                        mark(j as usize)
                    ));
                }
            }
            drop(te);
            if std::env::var("VH_C06_DEBUG").is_ok() {
                eprintln!("FIN {fin:?} want {want:?}");
            }
            xplore::observe(format!("{fin:?}{:?}", res.lock().unwrap()));
            drop(eng);
        });
    })
}

pub fn s_params(thorough: bool) -> Vec<(SP, usize)> {
    use E::*;
    let g2 = G {
        n: 2,
        adj: vec![vec![No, Fixed], vec![Fixed, No]],
        fw: vec![false, false],
    };
    let g3 = G {
        n: 3,
        adj: vec![
            vec![No, Fixed, No],
            vec![No, No, Fixed],
            vec![Fixed, No, No],
        ],
        fw: vec![false, true, false],
    };
    // two cycles sharing node 0, plus an outside consumer
    let g4 = G {
        n: 4,
        adj: vec![
            vec![No, Fixed, Fixed, No],
            vec![Fixed, No, No, No],
            vec![Fixed, No, No, No],
            vec![Fixed, No, No, No],
        ],
        fw: vec![false, false, false, false],
    };
    // two cycles through the shared tail 3 -> 4 -> 0; node 0 reads 1 and 2
    // concurrently, both converge on 3
    let g5 = G {
        n: 5,
        adj: vec![
            vec![No, Fixed, Fixed, No, No],
            vec![No, No, No, Fixed, No],
            vec![No, No, No, Fixed, No],
            vec![No, No, No, No, Fixed],
            vec![Fixed, No, No, No, No],
        ],
        fw: vec![false; 5],
    };
    let d = |q: usize, t: usize| if thorough { t } else { q };
    vec![
        (SP { g: g5.clone(), roots: vec![0], inputs: [0, 0], join: vec![0], spawn: vec![], detach: vec![] }, d(2, 3)),
        (SP { g: g5.clone(), roots: vec![0, 3], inputs: [0, 0], join: vec![0], spawn: vec![], detach: vec![] }, d(1, 2)),
        // the same with the two reads of node 0 in spawned helper tasks
        (SP { g: g5.clone(), roots: vec![0], inputs: [0, 0], join: vec![], spawn: vec![0], detach: vec![] }, d(2, 3)),
        (SP { g: g5, roots: vec![0, 4], inputs: [0, 0], join: vec![], spawn: vec![0], detach: vec![] }, d(1, 2)),
        (SP { g: g2.clone(), roots: vec![0, 1], inputs: [0, 0], join: vec![], spawn: vec![], detach: vec![] }, d(2, 3)),
        (SP { g: g3.clone(), roots: vec![0, 1], inputs: [0, 0], join: vec![], spawn: vec![], detach: vec![] }, d(2, 3)),
        (SP { g: g3, roots: vec![0, 1, 2], inputs: [0, 0], join: vec![], spawn: vec![], detach: vec![] }, d(1, 2)),
        (SP { g: g4.clone(), roots: vec![1, 2], inputs: [0, 0], join: vec![], spawn: vec![], detach: vec![] }, d(2, 3)),
        (SP { g: g4, roots: vec![3, 2], inputs: [0, 0], join: vec![], spawn: vec![], detach: vec![] }, d(2, 2)),
    ]
    .into_iter()
    .chain(d_params(thorough))
    .collect()
}

/// Executors that hand their reads to helper tasks and return without
/// joining them (the engine waits for the helpers before it publishes): the
/// helper of node 0 closes the cycle after node 0's executor has returned.
pub fn d_params(thorough: bool) -> Vec<(SP, usize)> {
    use E::*;
    let g2 = G { n: 2, adj: vec![vec![No, Fixed], vec![Fixed, No]], fw: vec![false, false] };
    let g3 = G {
        n: 3,
        adj: vec![vec![No, Fixed, No], vec![No, No, Fixed], vec![Fixed, No, No]],
        fw: vec![false, false, false],
    };
    // no cycle: 0 -detached-> 1, 2 -> 0 (a consumer of a node with a late helper)
    let g3c = G {
        n: 3,
        adj: vec![vec![No, Fixed, No], vec![No, No, No], vec![Fixed, No, No]],
        fw: vec![false, false, false],
    };
    let d = |q: usize, t: usize| if thorough { t } else { q };
    vec![
        (SP { g: g2.clone(), roots: vec![0], inputs: [0, 0], join: vec![], spawn: vec![], detach: vec![0] }, d(2, 3)),
        (SP { g: g2, roots: vec![0, 1], inputs: [0, 0], join: vec![], spawn: vec![], detach: vec![0] }, d(2, 3)),
        (SP { g: g3.clone(), roots: vec![0], inputs: [0, 0], join: vec![], spawn: vec![], detach: vec![0] }, d(2, 3)),
        (SP { g: g3, roots: vec![1, 0], inputs: [0, 0], join: vec![], spawn: vec![], detach: vec![0, 1] }, d(1, 2)),
        (SP { g: g3c, roots: vec![2, 1], inputs: [0, 0], join: vec![], spawn: vec![], detach: vec![0] }, d(2, 3)),
    ]
}

pub fn child_d(idx: usize) {
    let thorough = crate::report::tier() == "thorough";
    let (p, d) = d_params(thorough)[idx].clone();
    let mut cfg = xplore::Cfg::new(d);
    cfg.max_failures = 1000;
    let o = xplore::explore_parallel(&cfg, crate::report::threads(), s_scenario(p));
    crate::report::emit_child_result(&o.to_json());
}

pub fn child_s(idx: usize) {
    let thorough = crate::report::tier() == "thorough";
    let (p, d) = s_params(thorough)[idx].clone();
    let mut cfg = xplore::Cfg::new(d);
    cfg.max_failures = 1000;
    let o = xplore::explore_parallel(&cfg, crate::report::threads(), s_scenario(p));
    crate::report::emit_child_result(&o.to_json());
}

impl G {
    /// Known finding F8: the engine unwinds an executor at its FIRST cyclic
    /// read, so the dependencies it would have read afterwards are never
    /// recorded; a node that is on a cycle only through such a later edge is
    /// not recognised as a cycle member. `f8_nodes` = nodes on a cycle of the
    /// input-determined graph that are on no cycle of the graph in which
    /// every node keeps only the first (in read order) edge that stays inside
    /// its strongly connected component.
    pub fn f8_nodes(&self, inputs: [Val; 2]) -> Vec<bool> {
        let en = self.enabled(inputs);
        let n = self.n;
        let closure = |e: &Vec<Vec<bool>>| {
            let mut r = e.clone();
            for k in 0..n {
                for i in 0..n {
                    for j in 0..n {
                        if r[i][k] && r[k][j] {
                            r[i][j] = true;
                        }
                    }
                }
            }
            r
        };
        let reach = closure(&en);
        let same_scc = |i: usize, j: usize| reach[i][j] && reach[j][i];
        let mut first = vec![vec![false; n]; n];
        for i in 0..n {
            if let Some(j) = (0..n).find(|j| en[i][*j] && (same_scc(i, *j))) {
                first[i][j] = true;
            }
        }
        let r2 = closure(&first);
        (0..n).map(|i| reach[i][i] && !r2[i][i]).collect()
    }
}

fn tags_of(g: &G, inputs: [Val; 2], earlier: &[[Val; 2]], node: Option<usize>) -> Vec<String> {
    let mut t = Vec::new();
    let Some(x) = node else { return t };
    let f8 = g.f8_nodes(inputs);
    if f8[x] {
        t.push("F8-cycle-through-later-read".to_string());
        return t;
    }
    // a node that (transitively) reads an F8 node inherits its value
    let en = g.enabled(inputs);
    let mut seen = vec![false; g.n];
    let mut stack = vec![x];
    while let Some(i) = stack.pop() {
        for j in 0..g.n {
            if en[i][j] && !seen[j] {
                seen[j] = true;
                stack.push(j);
            }
        }
    }
    if (0..g.n).any(|j| seen[j] && f8[j]) {
        t.push("F8-cycle-through-later-read".to_string());
    }
    // F14: the failing node is on (or reads from) a cycle that contains a
    // firewall: the cycle is closed by an edge that the repair pass never
    // re-reads because dirtiness does not cross the firewall
    let cycle_with_firewall = |inp: [Val; 2]| {
        let en = g.enabled(inp);
        let mut reach = en.clone();
        for k in 0..g.n {
            for i in 0..g.n {
                for j in 0..g.n {
                    if reach[i][k] && reach[k][j] {
                        reach[i][j] = true;
                    }
                }
            }
        }
        (0..g.n).any(|y| {
            (y == x || reach[x][y])
                && reach[y][y]
                && (0..g.n).any(|z| (z == y || (reach[y][z] && reach[z][y])) && g.fw[z])
        })
    };
    if cycle_with_firewall(inputs) {
        t.push("F14-cycle-through-firewall".to_string());
    } else if t.is_empty() && earlier.iter().any(|e| cycle_with_firewall(*e)) {
        // F20: the same, seen from the other side: under EARLIER inputs of
        // this history the node was on (or read from) a cycle that contains a
        // firewall; the edit removed the cycle, but what was recorded while
        // the members were unwound does not let the repair reach them
        t.push("F20-cycle-with-firewall-removed-by-edit".to_string());
    }
    t
}

/// every input state the history went through before `step`
fn inputs_before(h: &[Op], step: usize) -> Vec<[Val; 2]> {
    let mut out = vec![[0, 0]];
    let mut inputs = [0, 0];
    for op in h.iter().take(step) {
        if let Op::Session { writes, .. } = op {
            for w in writes {
                if let W::Set(b, v) = w {
                    inputs[*b as usize] = *v;
                }
            }
            out.push(inputs);
        }
    }
    out
}

pub fn check() -> i32 {
    let mut rep = Report::new("C06", "exploration");
    let thorough = rep.is_thorough();
    rep.rule = "H: every directed dependency graph of the listed universe \
                (1-3 nodes, self-loops included, every edge absent / fixed / \
                switched by one of two input bits, every node normal or \
                firewall) x every history to the listed depth over {set a \
                switching bit, query all nodes in every order inside one \
                tracked engine, query one node}, de-duplicated on the engine's \
                persisted state, on the real engine; oracle = the statement: \
                nodes on a cycle of the input-determined graph evaluate to \
                their cycle default, all others as from scratch with the \
                defaults substituted; every request completes. S: 2-3 tasks \
                enter one strongly connected component concurrently from \
                different members, all schedules with <= d deviations"
        .into();
    rep.assumptions = vec![
        "values: (node index + 1 + sum of reads) % 5; cycle defaults 7 (normal) \
         and 8 (firewall); projections are not placed on cycles"
            .into(),
    ];
    let depth = if thorough { 4 } else { 3 };
    let uni = universe(thorough);
    let ngraphs = uni.len();
    let threads = crate::report::threads();
    let queue = Arc::new(Mutex::new(
        uni.into_iter().enumerate().collect::<Vec<_>>(),
    ));
    let tot = Arc::new(Mutex::new((0u64, 0u64, 0u64, 0usize)));
    let viol: Arc<Mutex<Vec<Violation>>> = Arc::new(Mutex::new(Vec::new()));
    std::thread::scope(|sc| {
        for _ in 0..threads {
            let (queue, tot, viol) = (queue.clone(), tot.clone(), viol.clone());
            std::thread::Builder::new()
                .stack_size(32 << 20)
                .spawn_scoped(sc, move || {
                    loop {
                        let it = queue.lock().unwrap().pop();
                        let Some((gi, g)) = it else { break };
                        let alpha = alphabet(&g);
                        let uses_switch = g.adj.iter().flatten().any(|e| matches!(e, E::Sw(_)));
                        // second pass: the same search from "all switches on"
                        // (one session in front of every history, not counted
                        // in the depth)
                        let on = Op::Session { writes: vec![W::Set(0, 1), W::Set(1, 1)], commit: true };
                        for switches_on in [false, true] {
                            if switches_on && !uses_switch {
                                continue;
                            }
                            let full = |h: &Vec<Op>| -> Vec<Op> {
                                if switches_on {
                                    std::iter::once(on.clone()).chain(h.iter().cloned()).collect()
                                } else {
                                    h.clone()
                                }
                            };
                            // quick tier: the second pass of 3-node graphs one step shallower
                            let d2 = if switches_on && !thorough && g.n >= 3 { depth - 1 } else { depth };
                            let mut search = hist::Search::new(alpha.clone(), d2, 2000);
                            while let Some(h) = search.next() {
                                let (g2, h2) = (g.clone(), full(&h));
                                let r = POOL.with(|pool| {
                                    pool.run(move || shuttle::future::block_on(run(&g2, &h2)))
                                });
                                let r = match r {
                                    Ok(mut r) => {
                                        // steps are counted without the prefix
                                        if switches_on {
                                            for f in &mut r.findings {
                                                f.step = f.step.saturating_sub(1);
                                                f.fstep = f.fstep.saturating_sub(1);
                                            }
                                        }
                                        r
                                    }
                                    Err(f) => {
                                        let mut rr = hist::RunResult::default();
                                        rr.canon = format!("failed:{h:?}");
                                        rr.findings.push(hist::Finding {
                                            property: "C06",
                                            step: h.len().saturating_sub(1),
                                            what: format!("request did not complete: {:?} {}", f.kind, f.msg),
                                            ..Default::default()
                                        });
                                        rr
                                    }
                                };
                                search.submit(h, r);
                            }
                            let mut t = tot.lock().unwrap();
                            t.0 += search.stats.runs;
                            t.1 += search.stats.states;
                            t.2 += search.stats.transitions;
                            t.3 = t.3.max(search.stats.max_depth);
                            drop(t);
                            // at most 2 cases per classification and graph
                            let mut kept: Vec<Vec<String>> = Vec::new();
                            for case in search.findings.drain(..) {
                                let fh = full(&case.hist);
                                let off = usize::from(switches_on);
                                let tags = tags_of(
                                    &g,
                                    inputs_after(&fh, case.finding.step + off),
                                    &inputs_before(&fh, case.finding.step + off + 1),
                                    case.finding.key.and_then(|k| match k {
                                        Key::C(j) => Some(j as usize),
                                        _ => None,
                                    }),
                                );
                                if kept.iter().filter(|t| **t == tags).count() >= 2 {
                                    continue;
                                }
                                kept.push(tags.clone());
                                let idx: Vec<usize> = case
                                    .hist
                                    .iter()
                                    .map(|o| alpha.iter().position(|x| x == o).unwrap_or(0))
                                    .collect();
                                viol.lock().unwrap().push(Violation {
                                    what: format!(
                                        "graph {}: {} after {:?}",
                                        g.describe(),
                                        case.finding.what,
                                        fh.iter().map(Op::short).collect::<Vec<_>>()
                                    ),
                                    tags,
                                    replay: json!({"check": "c06h", "thorough": thorough,
                                        "graph_index": gi, "history_idx": idx, "switches_on_first": switches_on}),
                                });
                            }
                        }
                    }
                })
                .unwrap();
        }
    });
    let t = tot.lock().unwrap();
    rep.evaluations = t.0;
    rep.distinct_nontrivial = t.1;
    rep.extra.insert("graphs".into(), json!(ngraphs));
    rep.extra.insert("h_states".into(), json!(t.1));
    rep.extra.insert("h_transitions".into(), json!(t.2));
    rep.extra.insert("h_max_depth".into(), json!(t.3));
    drop(t);
    for v in viol.lock().unwrap().drain(..) {
        rep.violation(v);
    }
    // S
    let mut sout = Vec::new();
    for (idx, (p, d)) in s_params(thorough).iter().enumerate() {
        let Some(o) = crate::report::explore_isolated(
            &mut rep, "c06s", idx, "c06s", thorough,
        ) else {
            continue;
        };
        rep.evaluations += o.executions;
        rep.distinct_nontrivial += o.sigs;
        sout.push(json!({"graph": p.g.describe(), "roots": p.roots, "bound": d,
            "schedules": o.executions, "distinct_outcomes": o.outcomes,
            "failures": o.failures.len()}));
        if let Some(c) = &o.cap_hit {
            rep.cap(c.clone());
        }
        if let Some(m) = o.machinery_error {
            rep.machinery_errors.push(m);
        }
        for f in &o.failures {
            rep.violation(Violation {
                what: format!("S {} roots {:?} {:?}: {}", p.g.describe(), p.roots, f.kind, f.msg),
                tags: {
                    let mut t = vec![format!("{:?}", f.kind)];
                    // "query C(j) = ..." -> node j
                    let node = f
                        .msg
                        .split("query C(")
                        .nth(1)
                        .and_then(|r| r.split(')').next())
                        .and_then(|n| n.parse::<usize>().ok());
                    if f.msg.contains("its executor was cancelled together with its caller") {
                        t.push("F18-cycle-member-cancelled-with-its-caller".into());
                    } else if !f.msg.contains("on a cycle of the callee registrations made before the cycle was detected") {
                        t.extend(tags_of(&p.g, p.inputs, &[], node));
                    }
                    t
                },
                replay: json!({"check": "c06s", "thorough": thorough,
                    "scenario_index": idx, "schedule": sched_json(&f.schedule)}),
            });
        }
    }
    rep.extra.insert("s_scenarios".into(), json!(sout));
    rep.sample(json!({"graph": "0->1 1-[in0]->0 fw=[false, true]",
        "history": ["commit[in0=1]", "query[C(0), C(1)]", "commit[in0=0]", "query[C(1), C(0)]"]}));
    rep.finish()
}

pub fn replay(v: &Value) -> i32 {
    let thorough = v["thorough"].as_bool().unwrap_or(false);
    if v["check"] == "c06s" || v["check"] == "c06d" {
        let list = if v["check"] == "c06d" { d_params(thorough) } else { s_params(thorough) };
        let (p, _) = list[v["scenario_index"].as_u64().unwrap() as usize].clone();
        let s = sched_from_json(&v["schedule"]);
        let o1 = xplore::replay(&s, s_scenario(p.clone()));
        let o2 = xplore::replay(&s, s_scenario(p));
        let m1: Vec<_> = o1.failures.iter().map(|f| f.msg.clone()).collect();
        let m2: Vec<_> = o2.failures.iter().map(|f| f.msg.clone()).collect();
        if m1 != m2 {
            eprintln!("replay is not deterministic");
            return 2;
        }
        for m in &m1 {
            println!("replayed failure: {m}");
        }
        return if m1.is_empty() { 0 } else { 1 };
    }
    let g = universe(thorough)[v["graph_index"].as_u64().unwrap() as usize].clone();
    let a = alphabet(&g);
    let mut h: Vec<Op> = v["history_idx"]
        .as_array()
        .unwrap()
        .iter()
        .map(|i| a[i.as_u64().unwrap() as usize].clone())
        .collect();
    if v["switches_on_first"].as_bool().unwrap_or(false) {
        h.insert(0, Op::Session { writes: vec![W::Set(0, 1), W::Set(1, 1)], commit: true });
    }
    println!("graph {}: {:?}", g.describe(), h.iter().map(Op::short).collect::<Vec<_>>());
    let r = xplore::run_default(move || shuttle::future::block_on(run(&g, &h)));
    match r {
        Ok(r) => {
            for f in &r.findings {
                println!("replayed failure: {}", f.what);
            }
            if r.findings.is_empty() { 0 } else { 1 }
        }
        Err(e) => {
            println!("replayed failure: {:?} {}", e.kind, e.msg);
            1
        }
    }
}
