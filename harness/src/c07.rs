//! C07 — state survives a clean restart and is reused, not recomputed.
//! C08 — a crash loses recent work but never yields wrong answers.
//!
//! Both run the history search of C01 on an engine over `DbBacked<MemKv>`
//! (real caches, real write-behind pipeline) with `restart` / `drain` added
//! to the alphabet; C08 additionally re-opens an engine on every prefix of
//! the physical commit log of every visited history.

use std::sync::{Arc, Mutex};

use serde_json::{Value, json};

use crate::{
    c01,
    hist::{self, DbConf, Op, W},
    memkv::{self, Grouping},
    pq::{Key, Program, Shared},
    report::{Report, Violation},
    rig::{self, Ref},
    xplore,
};

pub fn programs(thorough: bool) -> Vec<(String, Program)> {
    let want: &[&str] = if thorough {
        &[
            "chain-cutoff",
            "cond-dep-node",
            "firewall-absorb",
            "firewall-proj",
            "firewall-2proj-2cons",
            "cond-firewall",
            "two-firewalls-chain",
            "proj-of-proj",
            "diamond-unord",
            "external-chain",
            "firewall-through-normal",
        ]
    } else {
        &[
            "chain-cutoff",
            "firewall-proj",
            "cond-dep-node",
            "diamond-unord",
            "external-chain",
            "two-firewalls-chain",
            "proj-of-proj",
        ]
    };
    c01::curated()
        .into_iter()
        .filter(|(n, _)| want.contains(n))
        .map(|(n, p)| (n.to_string(), p))
        .collect()
}

pub fn alphabet(p: &Program) -> Vec<Op> {
    let ins = hist::inputs_of(p);
    let xs = hist::externals_of(p);
    let n = p.nodes.len() as u8;
    let root = Key::C(n - 1);
    let mut ops = Vec::new();
    if let Some(&i) = ins.first() {
        for v in [1, 2, 0] {
            ops.push(Op::Session { writes: vec![W::Set(i, v)], commit: true });
        }
        ops.push(Op::Session { writes: vec![W::Set(i, 1)], commit: false });
        // one input assigned twice inside one session: the last write must
        // win in the store as it does in memory
        ops.push(Op::Session { writes: vec![W::Set(i, 1), W::Set(i, 2)], commit: true });
        ops.push(Op::Session { writes: vec![W::Set(i, 2), W::Upd(i, 2)], commit: true });
        ops.push(Op::Multi(vec![
            Op::Session { writes: vec![W::Set(i, 1)], commit: true },
            Op::Query(vec![root]),
        ]));
        ops.push(Op::Multi(vec![
            Op::Session { writes: vec![W::Set(i, 0)], commit: true },
            Op::Query(vec![root]),
        ]));
    }
    if ins.len() > 1 {
        ops.push(Op::Session { writes: vec![W::Set(ins[1], 1)], commit: true });
        ops.push(Op::Multi(vec![
            Op::Session { writes: vec![W::Set(ins[1], 1)], commit: true },
            Op::Query(vec![root]),
        ]));
    }
    for &x in &xs {
        ops.push(Op::Multi(vec![
            Op::World(x, 1),
            Op::Session { writes: vec![W::Refresh], commit: true },
        ]));
        ops.push(Op::World(x, 1));
    }
    ops.push(Op::Query(vec![root]));
    if n >= 2 {
        ops.push(Op::Query(vec![Key::C(0)]));
    }
    ops.push(Op::Restart);
    ops.push(Op::Drain);
    ops
}

pub fn confs(thorough: bool) -> Vec<DbConf> {
    if thorough {
        vec![
            DbConf { cap: 1, grouping: Grouping::Never },
            DbConf { cap: 2, grouping: Grouping::UpTo(2) },
            DbConf { cap: 64, grouping: Grouping::Alternate },
        ]
    } else {
        vec![
            DbConf { cap: 1, grouping: Grouping::UpTo(2) },
            DbConf { cap: 64, grouping: Grouping::Never },
        ]
    }
}

fn strip(h: &[Op]) -> Vec<Op> {
    h.iter()
        .filter(|o| !matches!(o, Op::Restart | Op::Drain))
        .cloned()
        .collect()
}

#[derive(Default)]
struct Tot {
    states: u64,
    transitions: u64,
    runs: u64,
    twins: u64,
    crash_prefixes: u64,
    reopen_runs: u64,
    max_depth: usize,
    capped: u64,
}

thread_local! {
    static POOL: xplore::Pool = xplore::Pool::new();
}

fn run_hist(p: &Program, h: &[Op], c: DbConf) -> Result<hist::DbRun, String> {
    let (p, h) = (p.clone(), h.to_vec());
    POOL.with(|pool| {
        pool.run(move || shuttle::future::block_on(hist::run_db(&p, &h, c)))
    })
    .map_err(|f| format!("{:?}: {}", f.kind, f.msg))
}

/// C08: open an engine on a store holding the first `k` physical commits.
/// Returns a description of what is wrong, if anything.
/// Both orders of asking: the nodes bottom-up (every node repairs only what
/// is directly below it) and top-down (the root's repair has to find
/// everything that is stale below it by itself).
fn check_crash_prefix(
    p: &Program,
    log: &[Vec<memkv::Op>],
    k: usize,
    snaps: &[Ref],
    c: DbConf,
) -> Result<Option<String>, String> {
    match check_crash_prefix_order(p, log, k, snaps, c, false)? {
        Some(m) => Ok(Some(m)),
        // dirtiness passes through normal nodes completely, so the order of
        // asking can only matter where a firewall or projection stops it
        None if p.nodes.iter().any(|n| n.style != crate::pq::Style::N) => {
            check_crash_prefix_order(p, log, k, snaps, c, true)
        }
        None => Ok(None),
    }
}

fn check_crash_prefix_order(
    p: &Program,
    log: &[Vec<memkv::Op>],
    k: usize,
    snaps: &[Ref],
    c: DbConf,
    top_down: bool,
) -> Result<Option<String>, String> {
    let p = p.clone();
    let prefix: Vec<Vec<memkv::Op>> = log[..k].to_vec();
    let snaps = snaps.to_vec();
    POOL.with(|pool| pool.run(move || {
        shuttle::future::block_on(async move {
            xplore::exploring(false);
            let st = Arc::new(Mutex::new(memkv::State::from_prefix(
                &prefix, c.grouping, false,
            )));
            let sh = Shared::new(p.clone());
            let eng = rig::new_db_engine(&sh, st.clone(), c.cap, 1).await;
            let ins = hist::inputs_of(&p);
            // which inputs does the recovered engine show?
            let mut shown = Ref::default();
            let mut missing = 0;
            for &i in &ins {
                let e2 = eng.clone();
                let sh2 = sh.clone();
                let r = std::panic::catch_unwind(std::panic::AssertUnwindSafe(|| {
                    shuttle::future::block_on(async {
                        let te = e2.clone().tracked().await;
                        rig::query(&sh2, &te, Key::In(i)).await
                    })
                }));
                match r {
                    Ok(v) => shown.inputs[i as usize] = Some(v),
                    Err(_) => missing += 1,
                }
            }
            if missing == ins.len() && !ins.is_empty() {
                // nothing of the initial session made it: a fresh store
                drop(eng);
                return None;
            }
            if missing > 0 {
                drop(eng);
                return Some(format!(
                    "after a crash at commit {k}: some inputs of the first \
                     session are present and others are not ({:?})",
                    shown.inputs
                ));
            }
            let Some(j) = snaps.iter().position(|s| s.inputs == shown.inputs)
            else {
                drop(eng);
                return Some(format!(
                    "after a crash at commit {k}: inputs {:?} are not those of \
                     any committed session",
                    shown.inputs
                ));
            };
            let mut model = snaps[j].clone();
            // externals: whatever the recovered engine executes now
            let mut bad = None;
            {
                let te = eng.clone().tracked().await;
                let n = p.nodes.len() as u8;
                let order: Vec<u8> = if top_down { (0..n).rev().collect() } else { (0..n).collect() };
                for jn in order {
                    let k2 = Key::C(jn);
                    let v = rig::query(&sh, &te, k2).await;
                    model.absorb_external_runs(&sh.take_events());
                    if model.xsnap.iter().all(Option::is_none) {
                        model.xsnap = model.world.map(Some);
                    }
                    let want = model.eval(&p, k2);
                    // external snapshots of the crashed run are unknown to
                    // the model: only judge nodes that do not read externals
                    let reads_x = hist::below(&p, k2)
                        .iter()
                        .any(|d| matches!(d, Key::X(_)));
                    if !reads_x && want != Some(v) {
                        bad = Some(format!(
                            "after a crash at commit {k} (inputs of session \
                             {j}: {:?}; nodes asked {}): query {k2:?} = {v}, from scratch \
                             {want:?} <<node={jn};got={v};session={j};top_down={top_down}>>",
                            shown.inputs,
                            if top_down { "top-down" } else { "bottom-up" }
                        ));
                        break;
                    }
                }
            }
            if bad.is_none() {
                // a further edit + query is right too
                if let Some(&i) = ins.first() {
                    let nv = (model.inputs[i as usize].unwrap_or(0) + 1) % 3;
                    let mut s = eng.input_session().await;
                    s.set_input(crate::pq::QIn(i), nv).await;
                    s.commit().await;
                    model.set_input(i, nv);
                    let te = eng.clone().tracked().await;
                    let root = Key::C(p.nodes.len() as u8 - 1);
                    let v = rig::query(&sh, &te, root).await;
                    let reads_x = hist::below(&p, root)
                        .iter()
                        .any(|d| matches!(d, Key::X(_)));
                    if !reads_x && model.eval(&p, root) != Some(v) {
                        bad = Some(format!(
                            "after a crash at commit {k} and a further edit: \
                             query {root:?} = {v}, from scratch {:?}",
                            model.eval(&p, root)
                        ));
                    }
                }
            }
            drop(eng);
            bad
        })
    }))
    .map_err(|f| format!("{:?}: {}", f.kind, f.msg))
}

/// Classification of a wrong answer of a recovered engine by the shape of
/// the history up to the recovered session (see `hist::classify`).
fn classify_recovered(p: &Program, h: &[Op], act_log: &[(usize, Key)], msg: &str) -> Vec<String> {
    let Some(meta) = msg.split("<<").nth(1).and_then(|s| s.split(">>").next()) else {
        return vec![];
    };
    let mut node = 0u8;
    let mut got = 0;
    let mut session = 0usize;
    let mut top_down = false;
    for kv in meta.split(';') {
        let mut it = kv.split('=');
        match (it.next(), it.next()) {
            (Some("node"), Some(v)) => node = v.parse().unwrap_or(0),
            (Some("got"), Some(v)) => got = v.parse().unwrap_or(0),
            (Some("session"), Some(v)) => session = v.parse().unwrap_or(0),
            (Some("top_down"), Some(v)) => top_down = v == "true",
            _ => {}
        }
    }
    let fl = hist::flatten(h);
    let (snaps, at) = hist::snapshots(p, &fl);
    // The recovered session is identified by its inputs only; when several
    // committed sessions have the same inputs (an edit that was reverted, a
    // commit that repeats a value) the store may be that of any of them, so
    // the shape is looked for in the history up to each, latest first.
    let mut candidates: Vec<usize> = (0..snaps.len())
        .filter(|j| snaps.get(session).is_some_and(|s| s.inputs == snaps[*j].inputs))
        .collect();
    if candidates.is_empty() {
        candidates.push(session);
    }
    candidates.reverse();
    for session in candidates {
        let cut = at.iter().position(|a| *a > session).unwrap_or(fl.len());
        let n = p.nodes.len() as u8;
        let order: Vec<Key> =
            if top_down { (0..n).rev().map(Key::C).collect() } else { (0..n).map(Key::C).collect() };
        let mut hh: Vec<Op> = fl[..cut].to_vec();
        // restarts / drains do not matter for the shape
        hh.retain(|o| !matches!(o, Op::Restart | Op::Drain));
        let removed_before = |i: usize| fl[..i].iter().filter(|o| matches!(o, Op::Restart | Op::Drain)).count();
        let acts: Vec<(usize, Key)> = act_log
            .iter()
            .filter(|(s, _)| *s < cut)
            .map(|(s, k)| (*s - removed_before(*s), *k))
            .collect();
        let fstep = hh.len();
        hh.push(Op::Query(order.clone()));
        let pseudo = hist::Finding {
            property: "C01",
            step: fstep,
            fstep,
            what: String::new(),
            key: Some(Key::C(node)),
            got: Some(got),
            reader: None,
            root: order.first().copied(),
            stale_dep: None,
        };
        let tags: Vec<String> =
            hist::classify(p, &hh, &acts, &pseudo).into_iter().filter(|t| t.starts_with("F10")).collect();
        if !tags.is_empty() {
            return tags;
        }
    }
    vec![]
}

pub fn check(property: &'static str) -> i32 {
    let c08 = property == "C08";
    let mut rep = Report::new(
        property,
        if c08 { "fault_enumeration" } else { "model_checking" },
    );
    let thorough = rep.is_thorough();
    let depth = if c08 { if thorough { 4 } else { 3 } } else if thorough { 5 } else { 4 };
    rep.rule = if c08 {
        "for every history visited by the C07 search (engine over \
         DbBacked<MemKv>, alphabet below incl. restart/drain, per cache \
         capacity and store grouping policy) take the ordered physical commit \
         log of the store and, for EVERY prefix of it, open a new engine on a \
         store holding exactly that prefix: opening does not fail, the inputs \
         it shows are those of one committed session (all of them), every \
         query equals the from-scratch value for those inputs, and a further \
         edit + query is right. distinct = distinct (history, prefix) pairs"
            .to_string()
    } else {
        "explicit-state BFS over histories (sessions, queries, macro-ops, \
         RESTART = clean shutdown + new engine/interner/caches on the same \
         store, DRAIN = write-behind pipeline quiesces) of the real engine \
         over DbBacked<MemKv>, per cache capacity (1/2/64) and store grouping \
         policy; every value and dependency read is compared with the \
         from-scratch model (no input is ever set again after a restart), \
         every executor activation is judged for justification across \
         restarts (up-to-date results must be served without running \
         anything), and for histories containing a restart the twin history \
         without restarts must produce the same values and the same \
         activation log"
            .to_string()
    };
    rep.assumptions = vec![
        "sequential histories, deterministic scheduling of the pipeline \
         threads; MemKv (harness KvDatabase, real Postcard encoding) stands \
         for the backend"
            .into(),
        "crash = the store holds a prefix of the physical commits (batch \
         atomicity of the backend itself is C11/C10)"
            .into(),
    ];

    let threads = crate::report::threads();
    let tot = Arc::new(Mutex::new(Tot::default()));
    let viol: Arc<Mutex<Vec<Violation>>> = Arc::new(Mutex::new(Vec::new()));
    let max_states = if thorough { 6000 } else { 3000 };

    let mut items = Vec::new();
    for (ci, c) in confs(thorough).into_iter().enumerate() {
        for (pi, (name, p)) in programs(thorough).into_iter().enumerate() {
            items.push((ci, c, pi, name, p));
        }
    }
    let queue = Arc::new(Mutex::new(items));
    std::thread::scope(|sc| {
        for _ in 0..threads {
            let (queue, tot, viol) = (queue.clone(), tot.clone(), viol.clone());
            std::thread::Builder::new()
                .stack_size(32 << 20)
                .spawn_scoped(sc, move || {
                    loop {
                        let it = queue.lock().unwrap().pop();
                        let Some((ci, c, pi, name, p)) = it else { break };
                        let alpha = alphabet(&p);
                        let mut search =
                            hist::Search::new(alpha.clone(), depth, max_states);
                        while let Some(h) = search.next() {
                            let r = run_hist(&p, &h, c);
                            let mut extra: Vec<hist::Finding> = Vec::new();
                            let dbrun = match r {
                                Ok(r) => r,
                                Err(e) => {
                                    let mut d = hist::DbRun::default();
                                    d.run.canon = format!("failed:{h:?}");
                                    d.run.findings.push(hist::Finding {
                                        property: "C01",
                                        step: h.len().saturating_sub(1),
                                        what: format!("run aborted: {e}"),
                                        ..Default::default()
                                    });
                                    d
                                }
                            };
                            let mut t = tot.lock().unwrap();
                            t.runs += 1;
                            drop(t);
                            // differential oracle
                            let has_restart =
                                h.iter().any(|o| matches!(o, Op::Restart));
                            let last_is_ctl = matches!(
                                h.last(),
                                Some(Op::Restart | Op::Drain) | None
                            );
                            if !c08 && has_restart && !last_is_ctl {
                                if let Ok(tw) = run_hist(&p, &strip(&h), c) {
                                    tot.lock().unwrap().twins += 1;
                                    let a: Vec<Key> =
                                        dbrun.run.act_log.iter().map(|x| x.1).collect();
                                    let b: Vec<Key> =
                                        tw.run.act_log.iter().map(|x| x.1).collect();
                                    let va: Vec<_> = dbrun.run.values.iter().map(|x| (x.1, x.2)).collect();
                                    let vb: Vec<_> = tw.run.values.iter().map(|x| (x.1, x.2)).collect();
                                    if a != b || va != vb {
                                        extra.push(hist::Finding {
                                            property: "C07",
                                            step: h.len() - 1,
                                            what: format!(
                                                "restart changes behaviour: \
                                                 activations {a:?} vs {b:?} \
                                                 without restarts; values \
                                                 {va:?} vs {vb:?}"
                                            ),
                                            ..Default::default()
                                        });
                                    }
                                }
                            }
                            // crash prefixes
                            if c08 && dbrun.run.findings.is_empty() {
                                for k in 0..=dbrun.log.len() {
                                    tot.lock().unwrap().crash_prefixes += 1;
                                    match check_crash_prefix(
                                        &p, &dbrun.log, k, &dbrun.snapshots, c,
                                    ) {
                                        Ok(None) => {}
                                        Ok(Some(m)) => {
                                            // a wrong answer that the engine would give
                                            // WITHOUT a crash as well (same history up
                                            // to the recovered session, same order of
                                            // asking) is the known incremental finding,
                                            // not a crash-consistency one: classify it
                                            // by the shape of the history
                                            let known = classify_recovered(&p, &h, &dbrun.run.act_log, &m);
                                            extra.push(hist::Finding {
                                                property: "C08",
                                                step: h.len().saturating_sub(1),
                                                what: if known.is_empty() {
                                                    m
                                                } else {
                                                    format!("{m} [known-shape: {}]", known.join(","))
                                                },
                                                ..Default::default()
                                            })
                                        }
                                        Err(e) => extra.push(hist::Finding {
                                            property: "C08",
                                            step: h.len().saturating_sub(1),
                                            what: format!(
                                                "engine on commit-log prefix \
                                                 {k} failed: {e}"
                                            ),
                                            ..Default::default()
                                        }),
                                    }
                                    tot.lock().unwrap().reopen_runs += 1;
                                }
                            }
                            let mut run = dbrun.run;
                            run.findings.extend(extra);
                            search.submit(h, run);
                        }
                        let mut t = tot.lock().unwrap();
                        t.states += search.stats.states;
                        t.transitions += search.stats.transitions;
                        t.max_depth = t.max_depth.max(search.stats.max_depth);
                        if search.stats.capped {
                            t.capped += 1;
                        }
                        drop(t);
                        for case in search.findings.drain(..) {
                            let f = &case.finding;
                            let relevant = if c08 {
                                f.property == "C08"
                            } else {
                                true
                            };
                            if !relevant {
                                continue;
                            }
                            let mut tags =
                                hist::classify(&p, &case.hist, &case.acts, f);
                            if let Some(ks) = f.what.split("[known-shape: ").nth(1) {
                                for t in ks.trim_end_matches(']').split(',') {
                                    tags.push(t.to_string());
                                }
                            }
                            tags.push(f.property.to_string());
                            let idx: Vec<usize> = case
                                .hist
                                .iter()
                                .map(|o| {
                                    alpha.iter().position(|x| x == o).unwrap_or(0)
                                })
                                .collect();
                            viol.lock().unwrap().push(Violation {
                                what: format!(
                                    "{} {:?}: [{}] {} after {:?}",
                                    name,
                                    c,
                                    f.property,
                                    f.what,
                                    case.hist.iter().map(Op::short).collect::<Vec<_>>()
                                ),
                                tags,
                                replay: json!({"check": "c07", "thorough": thorough,
                                    "c08": c08, "conf": ci, "program": pi,
                                    "history_idx": idx}),
                            });
                        }
                    }
                })
                .unwrap();
        }
    });

    let t = tot.lock().unwrap();
    if c08 {
        rep.evaluations = t.reopen_runs;
        rep.distinct_nontrivial = t.crash_prefixes;
        rep.extra.insert("histories".into(), json!(t.runs));
    } else {
        rep.states = Some(t.states);
        rep.transitions = Some(t.transitions);
        rep.traces_validated = Some(t.runs + t.twins);
        rep.evaluations = t.runs + t.twins;
        rep.distinct_nontrivial = t.states;
        rep.extra.insert("restart_twins_compared".into(), json!(t.twins));
    }
    rep.extra.insert("max_history_depth".into(), json!(t.max_depth));
    rep.extra.insert(
        "configurations".into(),
        json!(confs(thorough).iter().map(|c| format!("{c:?}")).collect::<Vec<_>>()),
    );
    rep.extra.insert(
        "program_names".into(),
        json!(programs(thorough).iter().map(|p| p.0.clone()).collect::<Vec<_>>()),
    );
    rep.extra.insert("programs".into(), json!(programs(thorough).len()));
    if t.capped > 0 {
        rep.cap(format!("{} (program, conf) pairs hit the state cap {max_states}", t.capped));
    }
    drop(t);
    let (n0, p0) = &programs(thorough)[1];
    rep.sample(json!({"program": n0, "nodes": p0.describe(),
        "alphabet": alphabet(p0).iter().map(Op::short).collect::<Vec<_>>()}));
    for v in viol.lock().unwrap().drain(..) {
        rep.violation(v);
    }
    rep.finish()
}

pub fn replay(v: &Value) -> i32 {
    let thorough = v["thorough"].as_bool().unwrap_or(false);
    let c = confs(thorough)[v["conf"].as_u64().unwrap() as usize];
    let (name, p) = programs(thorough)[v["program"].as_u64().unwrap() as usize].clone();
    let a = alphabet(&p);
    let h: Vec<Op> = v["history_idx"]
        .as_array()
        .unwrap()
        .iter()
        .map(|i| a[i.as_u64().unwrap() as usize].clone())
        .collect();
    println!("{name} {c:?}: {:?}", h.iter().map(Op::short).collect::<Vec<_>>());
    match run_hist(&p, &h, c) {
        Ok(r) => {
            for f in &r.run.findings {
                println!("replayed failure [{}] step {}: {}", f.property, f.step, f.what);
            }
            if v["c08"].as_bool().unwrap_or(false) {
                let mut bad = 0;
                for k in 0..=r.log.len() {
                    if let Ok(Some(m)) | Err(m) = check_crash_prefix(&p, &r.log, k, &r.snapshots, c).map(|o| o) {
                        println!("replayed failure: {m}");
                        bad += 1;
                    }
                }
                return if bad > 0 || !r.run.findings.is_empty() { 1 } else { 0 };
            }
            if r.run.findings.is_empty() { 0 } else { 1 }
        }
        Err(e) => {
            println!("replayed failure: {e}");
            1
        }
    }
}
