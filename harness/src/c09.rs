//! C09 — cached maps always return the latest write (read-your-writes).
//!
//! H: every operation sequence up to a depth over a small alphabet
//! (writes into fresh / open batches, submits in any order, explicit pipeline
//! steps "serializer / committer / notifier runs until it blocks", bursts that
//! force evictions, reads) on the real `DbBacked<MemKv>` maps with the real
//! write-behind pipeline, against plain reference maps.
//! S: two foreground threads + the pipeline threads under deviation-bounded
//! schedule exploration.

use std::sync::{Arc, Mutex};

use qbice::storage::{
    dynamic_map::DynamicMap, key_of_set_map::KeyOfSetMap, single_map::SingleMap,
};
use serde_json::{Value, json};

use crate::{
    memkv::{self, Grouping},
    report::{Report, Violation, sched_from_json, sched_json},
    store::{self, Batch, D0, D1, Model, Rig, VA},
    xplore,
};

#[derive(Clone, Copy, Debug, PartialEq, Eq)]
pub enum Tgt {
    Fresh,
    Slot(u8),
}

#[derive(Clone, Debug, PartialEq, Eq)]
pub enum Op {
    Put(u8, Tgt),
    Del(u8, Tgt),
    DPut(u8, u8, Tgt),
    DDel(u8, u8, Tgt),
    SIns(u8, u16, Tgt),
    SRem(u8, u16, Tgt),
    Submit(u8),
    Get(u8),
    DGet(u8),
    Iter(u8),
    /// 0 serializer, 1 committer, 2 after-commit notifier
    Pump(u8),
    Burst,
    /// three further elements (10, 11, 12) into set `k` through open batch i
    SInsMany(u8, u8),
    /// submit open batch i and let the whole pipeline run (serialize, commit,
    /// notify)
    Flush(u8),
}

impl Op {
    pub fn short(&self) -> String {
        let t = |t: &Tgt| match t {
            Tgt::Fresh => "fresh".to_string(),
            Tgt::Slot(i) => format!("b{i}"),
        };
        match self {
            Op::Put(k, g) => format!("put(k{k})@{}", t(g)),
            Op::Del(k, g) => format!("del(k{k})@{}", t(g)),
            Op::DPut(k, y, g) => format!("dput(k{k},T{y})@{}", t(g)),
            Op::DDel(k, y, g) => format!("ddel(k{k},T{y})@{}", t(g)),
            Op::SIns(k, e, g) => format!("ins(s{k},{e})@{}", t(g)),
            Op::SRem(k, e, g) => format!("rem(s{k},{e})@{}", t(g)),
            Op::Submit(i) => format!("submit(b{i})"),
            Op::Get(k) => format!("get(k{k})"),
            Op::DGet(k) => format!("dget(k{k})"),
            Op::Iter(k) => format!("iter(s{k})"),
            Op::Pump(0) => "serialize".into(),
            Op::Pump(1) => "commit".into(),
            Op::Pump(_) => "notify".into(),
            Op::Burst => "burst".into(),
            Op::SInsMany(k, i) => format!("ins(s{k},10..12)@b{i}"),
            Op::Flush(i) => format!("submit(b{i});serialize;commit;notify"),
        }
    }
}

#[derive(Clone, Copy, Debug, PartialEq, Eq)]
pub enum Mode {
    Wide,
    Wide2,
    Dyn,
    Set,
    /// set pre-populated beyond the 1024-element in-memory threshold
    SetBig,
}

pub fn alphabet(m: Mode) -> Vec<Op> {
    use Op::*;
    use Tgt::*;
    let pumps = [Pump(0), Pump(1), Pump(2)];
    let mut v = match m {
        Mode::Wide | Mode::Wide2 => vec![
            Put(0, Fresh),
            Put(0, Slot(0)),
            Put(0, Slot(1)),
            Del(0, Fresh),
            Del(0, Slot(0)),
            Del(0, Slot(1)),
            Submit(0),
            Submit(1),
            Get(0),
            Burst,
        ],
        Mode::Dyn => vec![
            DPut(0, 0, Fresh),
            DPut(0, 1, Fresh),
            DDel(0, 0, Fresh),
            DDel(0, 1, Fresh),
            DPut(0, 0, Slot(0)),
            DDel(0, 1, Slot(0)),
            Submit(0),
            DGet(0),
            Burst,
        ],
        Mode::Set | Mode::SetBig => vec![
            SIns(0, 1, Fresh),
            SIns(0, 1, Slot(0)),
            SIns(0, 1, Slot(1)),
            SRem(0, 1, Fresh),
            SRem(0, 1, Slot(0)),
            SRem(0, 1, Slot(1)),
            SIns(0, 2, Fresh),
            SIns(0, 2, Slot(0)),
            SInsMany(0, 0),
            Flush(0),
            Submit(0),
            Submit(1),
            Iter(0),
            Burst,
        ],
    };
    if m == Mode::Wide2 {
        v.extend([Put(1, Fresh), Del(1, Slot(0)), Get(1)]);
    }
    v.extend(pumps);
    v
}

#[derive(Clone, Copy, Debug, PartialEq, Eq)]
pub struct Conf {
    pub mode: Mode,
    pub cap: u64,
    pub grouping: Grouping,
}

pub struct RunOut {
    /// the last op of the sequence was enabled
    pub enabled: bool,
    pub violation: Option<String>,
}

async fn write_op(
    rig: &Rig,
    model: &mut Model,
    ctr: &mut u64,
    op: &Op,
    b: &mut Batch,
) {
    match op {
        Op::Put(k, _) => {
            *ctr += 1;
            rig.single.insert(*k, VA(*ctr), b).await;
            model.wide.insert(*k, *ctr);
        }
        Op::Del(k, _) => {
            rig.single.remove(k, b).await;
            model.wide.remove(k);
        }
        Op::DPut(k, 0, _) => {
            *ctr += 1;
            rig.dynm.insert(*k, D0(*ctr), b).await;
            model.d0.insert(*k, *ctr);
        }
        Op::DPut(k, _, _) => {
            *ctr += 1;
            rig.dynm.insert(*k, D1(*ctr), b).await;
            model.d1.insert(*k, *ctr);
        }
        Op::DDel(k, 0, _) => {
            rig.dynm.remove::<D0>(k, b).await;
            model.d0.remove(k);
        }
        Op::DDel(k, _, _) => {
            rig.dynm.remove::<D1>(k, b).await;
            model.d1.remove(k);
        }
        Op::SIns(k, e, _) => {
            rig.set.insert(*k, *e, b).await;
            model.sets.entry(*k).or_default().insert(*e);
        }
        Op::SRem(k, e, _) => {
            rig.set.remove(k, e, b).await;
            if let Some(s) = model.sets.get_mut(k) {
                s.remove(e);
            }
        }
        _ => unreachable!(),
    }
}

fn tgt_of(op: &Op) -> Option<Tgt> {
    match op {
        Op::Put(_, t)
        | Op::Del(_, t)
        | Op::DPut(_, _, t)
        | Op::DDel(_, _, t)
        | Op::SIns(_, _, t)
        | Op::SRem(_, _, t) => Some(*t),
        _ => None,
    }
}

async fn read_all(rig: &Rig, model: &Model, what: &str) -> Option<String> {
    for k in [0u8, 1] {
        let got = rig.get(k).await;
        if got != model.wide.get(&k).copied() {
            return Some(format!(
                "{what}: get(k{k}) = {got:?}, reference {:?}",
                model.wide.get(&k)
            ));
        }
        let g0 = rig.dget0(k).await;
        let g1 = rig.dget1(k).await;
        if g0 != model.d0.get(&k).copied() || g1 != model.d1.get(&k).copied() {
            return Some(format!(
                "{what}: dget(k{k}) = ({g0:?},{g1:?}), reference ({:?},{:?})",
                model.d0.get(&k),
                model.d1.get(&k)
            ));
        }
        if let Some(v) = check_iter(rig, model, k, what).await {
            return Some(v);
        }
    }
    None
}

async fn check_iter(rig: &Rig, model: &Model, k: u8, what: &str) -> Option<String> {
    let got = rig.iter(k).await;
    let gs: std::collections::BTreeSet<u16> = got.iter().copied().collect();
    let want = model.sets.get(&k).cloned().unwrap_or_default();
    if gs != want {
        let miss: Vec<_> = want.difference(&gs).take(4).collect();
        let extra: Vec<_> = gs.difference(&want).take(4).collect();
        return Some(format!(
            "{what}: iter(s{k}) has {} elements, reference {}; missing \
             {miss:?} unexpected {extra:?}",
            gs.len(),
            want.len()
        ));
    }
    None
}

/// Execute one operation sequence on a fresh rig (inside shuttle).
pub async fn run_seq(c: Conf, seq: &[Op]) -> RunOut {
    xplore::exploring(false);
    let st = memkv::new_state(c.grouping, false);
    let mut rig = store::open(st.clone(), c.cap, 1);
    let mut model = Model::default();
    let mut ctr = 0u64;
    let mut slots: [Option<(Batch, u64)>; 2] = [None, None];
    // Writes to one key (set element) must be issued in batch creation order
    // — the engine guarantees this through the per-query exclusive lock; if a
    // key were written into an older open batch after a younger batch wrote
    // it, "issue order" (cache) and "creation order" (store, C10) would
    // legitimately disagree. Such sequences are pruned as disabled.
    let mut batch_no = 0u64;
    let mut last_writer: std::collections::BTreeMap<String, u64> =
        std::collections::BTreeMap::new();
    let mut enabled = true;
    let mut violation = None;

    if c.mode == Mode::SetBig {
        // 1030 elements, committed and un-pinned, read cache cold
        let mut b = rig.new_batch();
        for e in 100..1130u16 {
            rig.set.insert(0, e, &mut b).await;
            model.sets.entry(0).or_default().insert(e);
        }
        rig.submit(b);
        xplore::pump(store::T_SER0);
        xplore::pump(store::T_COMMIT);
        xplore::pump(store::T_NOTIFY);
        for k in 50..90u8 {
            let _ = rig.iter(k).await;
        }
    }

    for op in seq {
        enabled = true;
        match op {
            Op::Submit(i) => match slots[*i as usize].take() {
                Some((b, _)) => rig.submit(b),
                None => enabled = false,
            },
            Op::Get(k) => {
                let got = rig.get(*k).await;
                let want = model.wide.get(k).copied();
                if got != want {
                    violation = Some(format!(
                        "get(k{k}) = {got:?}, reference {want:?}"
                    ));
                }
            }
            Op::DGet(k) => {
                let g0 = rig.dget0(*k).await;
                let g1 = rig.dget1(*k).await;
                let w0 = model.d0.get(k).copied();
                let w1 = model.d1.get(k).copied();
                if (g0, g1) != (w0, w1) {
                    violation = Some(format!(
                        "dget(k{k}) = ({g0:?},{g1:?}), reference ({w0:?},{w1:?})"
                    ));
                }
            }
            Op::Iter(k) => {
                violation = check_iter(&rig, &model, *k, "read").await;
            }
            Op::Pump(i) => {
                let name = match i {
                    0 => store::T_SER0,
                    1 => store::T_COMMIT,
                    _ => store::T_NOTIFY,
                };
                enabled = xplore::pump(name);
            }
            Op::Burst => match c.mode {
                Mode::Set | Mode::SetBig => {
                    for k in 100..140u8 {
                        let _ = rig.iter(k).await;
                    }
                }
                Mode::Dyn => {
                    for k in 100..140u8 {
                        let _ = rig.dget0(k).await;
                    }
                }
                _ => {
                    for k in 100..140u8 {
                        let _ = rig.get(k).await;
                    }
                }
            },
            Op::Flush(i) => match slots[*i as usize].take() {
                Some((b, _)) => {
                    rig.submit(b);
                    for t in [store::T_SER0, store::T_COMMIT, store::T_NOTIFY] {
                        let _ = xplore::pump(t);
                    }
                }
                None => enabled = false,
            },
            Op::SInsMany(k, i) => {
                if slots[*i as usize].is_none() {
                    batch_no += 1;
                    slots[*i as usize] = Some((rig.new_batch(), batch_no));
                }
                let (b, no) = slots[*i as usize].as_mut().unwrap();
                for e in [10u16, 11, 12] {
                    let wkey = format!("s{k}:{e}");
                    if last_writer.get(&wkey).is_some_and(|l| *l > *no) {
                        enabled = false;
                        break;
                    }
                    last_writer.insert(wkey, *no);
                    write_op(&rig, &mut model, &mut ctr, &Op::SIns(*k, e, Tgt::Slot(*i)), b).await;
                }
            }
            w => {
                let wkey = match w {
                    Op::Put(k, _) | Op::Del(k, _) => format!("w{k}"),
                    Op::DPut(k, y, _) | Op::DDel(k, y, _) => format!("d{k}:{y}"),
                    Op::SIns(k, e, _) | Op::SRem(k, e, _) => format!("s{k}:{e}"),
                    _ => unreachable!(),
                };
                match tgt_of(w).unwrap() {
                    Tgt::Fresh => {
                        let mut b = rig.new_batch();
                        batch_no += 1;
                        last_writer.insert(wkey, batch_no);
                        write_op(&rig, &mut model, &mut ctr, w, &mut b).await;
                        rig.submit(b);
                    }
                    Tgt::Slot(i) => {
                        if slots[i as usize].is_none() {
                            batch_no += 1;
                            slots[i as usize] = Some((rig.new_batch(), batch_no));
                        }
                        let (b, no) = slots[i as usize].as_mut().unwrap();
                        if last_writer.get(&wkey).is_some_and(|l| *l > *no) {
                            enabled = false;
                        } else {
                            last_writer.insert(wkey, *no);
                            write_op(&rig, &mut model, &mut ctr, w, b).await;
                        }
                    }
                }
            }
        }
        if violation.is_some() || !enabled {
            break;
        }
    }

    // wind down: open batches must be submitted (an active batch panics on
    // drop and would stall the commit order)
    for s in slots.iter_mut() {
        if let Some((b, _)) = s.take() {
            rig.submit(b);
        }
    }
    if violation.is_none() && enabled {
        violation = read_all(&rig, &model, "final read").await;
    }
    rig.shutdown();
    if violation.is_none() && enabled {
        // everything submitted is durable after shutdown: fresh maps over the
        // same store must read the reference content
        let rig2 = store::open(st, 8, 1);
        violation = read_all(&rig2, &model, "after shutdown/reopen").await;
        let mut rig2 = rig2;
        rig2.shutdown();
    }
    RunOut { enabled, violation }
}

/// Depth-first enumeration of all sequences below a fixed prefix.
struct SeqDfs {
    n: usize,
    depth: usize,
    root: usize,
    cur: Vec<usize>,
    done: bool,
}

impl SeqDfs {
    fn new(n: usize, depth: usize, prefix: Vec<usize>) -> Self {
        Self { n, depth, root: prefix.len(), cur: prefix, done: false }
    }

    fn advance(&mut self, descend: bool) {
        if descend && self.cur.len() < self.depth {
            self.cur.push(0);
            return;
        }
        loop {
            if self.cur.len() <= self.root {
                self.done = true;
                return;
            }
            let l = self.cur.last_mut().unwrap();
            *l += 1;
            if *l < self.n {
                return;
            }
            self.cur.pop();
        }
    }
}

#[derive(Default)]
struct Tot {
    runs: u64,
    nontrivial: u64,
    disabled: u64,
    viol: Vec<(Conf2, Vec<usize>, String)>,
    errs: Vec<String>,
}

type Conf2 = (usize, u64, usize);

fn confs(thorough: bool) -> Vec<(Conf, usize)> {
    let g2 = Grouping::UpTo(2);
    let mut v = vec![
        (Conf { mode: Mode::Wide, cap: 1, grouping: Grouping::Never }, 5),
        (Conf { mode: Mode::Set, cap: 1, grouping: Grouping::Never }, 5),
        (Conf { mode: Mode::Dyn, cap: 2, grouping: g2 }, 4),
        (Conf { mode: Mode::SetBig, cap: 2, grouping: Grouping::Never }, 3),
    ];
    if thorough {
        v = vec![
            (Conf { mode: Mode::Wide, cap: 1, grouping: Grouping::Never }, 6),
            (Conf { mode: Mode::Wide, cap: 2, grouping: g2 }, 6),
            (Conf { mode: Mode::Wide2, cap: 1, grouping: g2 }, 5),
            (Conf { mode: Mode::Set, cap: 1, grouping: Grouping::Never }, 6),
            (Conf { mode: Mode::Set, cap: 2, grouping: g2 }, 6),
            (Conf { mode: Mode::Dyn, cap: 1, grouping: Grouping::Never }, 6),
            (Conf { mode: Mode::Dyn, cap: 2, grouping: g2 }, 5),
            (Conf { mode: Mode::SetBig, cap: 2, grouping: Grouping::Never }, 4),
            (Conf { mode: Mode::Wide, cap: 4, grouping: Grouping::Alternate }, 5),
        ];
    }
    v
}

fn conf_json(c: &Conf) -> Value {
    json!({"mode": format!("{:?}", c.mode), "cache_capacity": c.cap,
           "grouping": format!("{:?}", c.grouping)})
}

pub fn run_h(rep: &mut Report, thorough: bool) {
    let threads = crate::report::threads();
    let all = confs(thorough);
    let mut per_conf = Vec::new();
    for (ci, (c, depth)) in all.iter().enumerate() {
        let alpha = Arc::new(alphabet(c.mode));
        let n = alpha.len();
        // work items: every length-2 prefix (length-1 prefixes are executed
        // by the item whose second op is 0)
        let mut items: Vec<Vec<usize>> = Vec::new();
        for a in 0..n {
            for b in 0..n {
                items.push(vec![a, b]);
            }
        }
        let queue = Arc::new(Mutex::new(items));
        let tot = Arc::new(Mutex::new(Tot::default()));
        std::thread::scope(|sc| {
            for _ in 0..threads {
                let (queue, tot, alpha, c, depth) =
                    (queue.clone(), tot.clone(), alpha.clone(), *c, *depth);
                std::thread::Builder::new()
                    .stack_size(16 << 20)
                    .spawn_scoped(sc, move || {
                        loop {
                            let item = queue.lock().unwrap().pop();
                            let Some(prefix) = item else { break };
                            run_subtree(c, ci, depth, &alpha, prefix, &tot);
                        }
                    })
                    .unwrap();
            }
        });
        let t = tot.lock().unwrap();
        rep.evaluations += t.runs;
        rep.distinct_nontrivial += t.nontrivial;
        per_conf.push(json!({"conf": conf_json(c), "depth": depth,
            "alphabet": alpha.iter().map(Op::short).collect::<Vec<_>>(),
            "sequences": t.runs, "sequences_all_ops_enabled": t.nontrivial,
            "pruned_disabled": t.disabled, "violations": t.viol.len()}));
        for (_, seq, msg) in t.viol.iter().take(40) {
            let ops: Vec<String> =
                seq.iter().map(|i| alpha[*i].short()).collect();
            rep.violation(Violation {
                what: format!("{:?} cap={} {:?}: {} after {:?}", c.mode, c.cap,
                              c.grouping, msg, ops),
                tags: tags_h(c, &ops, msg),
                replay: json!({"check": "c09h", "thorough": thorough,
                               "conf_index": ci, "sequence": seq}),
            });
        }
        for e in &t.errs {
            rep.machinery_errors.push(e.clone());
        }
    }
    rep.extra.insert("h_configurations".into(), json!(per_conf));
    let (c0, _) = &all[0];
    rep.sample(json!({"conf": conf_json(c0),
        "sequence": ["put(k0)@fresh", "serialize", "commit", "burst", "get(k0)"]}));
}

fn run_subtree(
    c: Conf,
    _ci: usize,
    depth: usize,
    alpha: &Arc<Vec<Op>>,
    prefix: Vec<usize>,
    tot: &Arc<Mutex<Tot>>,
) {
    let second_is_zero = prefix[1] == 0;
    let first = prefix[0];
    let dfs = Arc::new(Mutex::new(SeqDfs::new(alpha.len(), depth, prefix)));
    // the length-1 prefix is run once, by the item with second op 0
    let pending_len1 = Arc::new(Mutex::new(second_is_zero));
    let current: Arc<Mutex<Option<Vec<usize>>>> = Arc::new(Mutex::new(None));
    let (d2, t2, a2, cur2, p2) = (
        dfs.clone(),
        tot.clone(),
        alpha.clone(),
        current.clone(),
        pending_len1.clone(),
    );
    let body = Arc::new(move || -> bool {
        let len1 = std::mem::replace(&mut *p2.lock().unwrap(), false);
        let seq_idx: Vec<usize> = if len1 {
            vec![first]
        } else {
            let d = d2.lock().unwrap();
            if d.done {
                return false;
            }
            d.cur.clone()
        };
        *cur2.lock().unwrap() = Some(seq_idx.clone());
        let seq: Vec<Op> = seq_idx.iter().map(|i| a2[*i].clone()).collect();
        let out = shuttle::future::block_on(run_seq(c, &seq));
        cur2.lock().unwrap().take();
        let mut t = t2.lock().unwrap();
        t.runs += 1;
        if out.enabled {
            t.nontrivial += 1;
        } else {
            t.disabled += 1;
        }
        if let Some(v) = &out.violation {
            let same = t.viol.iter().filter(|w| &w.2 == v).count();
            if same < 5 && t.viol.len() < 2000 {
                t.viol.push(((0, 0, 0), seq_idx.clone(), v.clone()));
            }
        }
        drop(t);
        if len1 {
            return true;
        }
        let mut d = d2.lock().unwrap();
        d.advance(out.enabled && out.violation.is_none());
        !d.done
    });
    let (d3, t3, cur3) = (dfs.clone(), tot.clone(), current.clone());
    let on_failure = Arc::new(move |f: &xplore::Failure| -> bool {
        let seq = cur3.lock().unwrap().take();
        let mut t = t3.lock().unwrap();
        t.runs += 1;
        if let Some(seq) = seq {
            if t.viol.len() < 400 {
                t.viol.push((
                    (0, 0, 0),
                    seq,
                    format!("{:?}: {}", f.kind, f.msg),
                ));
            }
        }
        drop(t);
        let mut d = d3.lock().unwrap();
        d.advance(false);
        !d.done
    });
    let o = xplore::repeat(body, on_failure);
    if let Some(m) = o.machinery_error {
        tot.lock().unwrap().errs.push(m);
    }
}

fn tags_h(c: &Conf, ops: &[String], msg: &str) -> Vec<String> {
    let mut t = Vec::new();
    // F5: set staging overlay — an element inserted, removed and inserted
    // again (or removed/inserted/removed) in distinct unflushed batches read
    // through a cold read cache
    if matches!(c.mode, Mode::Set | Mode::SetBig) && msg.contains("iter(") {
        let writes: Vec<&String> = ops
            .iter()
            .filter(|o| o.starts_with("ins(") || o.starts_with("rem("))
            .collect();
        let mut alternations = 0;
        for w in writes.windows(2) {
            let e0 = w[0].split(['(', ')']).nth(1).unwrap_or("");
            let e1 = w[1].split(['(', ')']).nth(1).unwrap_or("");
            if e0 == e1 && w[0][..3] != w[1][..3] {
                alternations += 1;
            }
        }
        if alternations >= 1 {
            t.push("set-staging-overlay-alternating-ops".to_string());
        }
    }
    t
}

// ---------------------------------------------------------------------------
// S part
// ---------------------------------------------------------------------------

#[derive(Clone, Debug)]
pub struct SP {
    pub name: &'static str,
    pub cap: u64,
    pub grouping: Grouping,
    pub workers: usize,
}

/// Thread A reads k0 (possibly suspended inside the store read of a cache
/// fill); thread B writes k0 twice in two batches, submits, and bursts; the
/// pipeline threads run whenever the scheduler lets them. Every read must
/// return a value that is at least as new as the last write that completed
/// before the read began, and never older than a value the same thread
/// already saw.
pub fn s_scenario(p: SP) -> Arc<dyn Fn() + Send + Sync> {
    Arc::new(move || {
        let p = p.clone();
        xplore::exploring(false);
        let st = memkv::new_state(p.grouping, true);
        let rig = Arc::new(store::open(st, p.cap, p.workers));
        // last completed write (value) per key, written by B before/after each
        // insert without an intervening scheduling point
        let done = Arc::new(std::sync::atomic::AtomicU64::new(0));
        let issued = Arc::new(std::sync::atomic::AtomicU64::new(0));
        let set_done = Arc::new(Mutex::new(std::collections::BTreeSet::<u16>::new()));
        let set_issued = Arc::new(Mutex::new(std::collections::BTreeSet::<u16>::new()));
        // did a read (cache fill) overlap a write that completed meanwhile?
        let fill_raced = Arc::new(std::sync::atomic::AtomicBool::new(false));

        // initial content: k0 = 1 committed & un-pinned; s0 = {1}
        {
            let r = &rig;
            shuttle::future::block_on(async {
                let mut b = r.new_batch();
                r.single.insert(0, VA(1), &mut b).await;
                r.set.insert(0, 1, &mut b).await;
                r.submit(b);
            });
            xplore::pump(store::T_SER0);
            xplore::pump(store::T_COMMIT);
            xplore::pump(store::T_NOTIFY);
            shuttle::future::block_on(async {
                for k in 100..140u8 {
                    let _ = r.get(k).await;
                    let _ = r.iter(k).await;
                }
            });
        }
        done.store(1, std::sync::atomic::Ordering::SeqCst);
        issued.store(1, std::sync::atomic::Ordering::SeqCst);
        set_done.lock().unwrap().insert(1);
        set_issued.lock().unwrap().insert(1);

        xplore::exploring(true);
        let use_set = p.name == "set";
        let use_remove = p.name == "remove";
        let mut hs = Vec::new();
        {
            let (rig, done, issued, set_done, set_issued, fill_raced) = (
                rig.clone(),
                done.clone(),
                issued.clone(),
                set_done.clone(),
                set_issued.clone(),
                fill_raced.clone(),
            );
            hs.push(shuttle::thread::spawn(move || {
                let r = &rig;
                let mut last = 0u64;
                for _ in 0..2 {
                    if use_set {
                        let lo = set_done.lock().unwrap().clone();
                        let got: std::collections::BTreeSet<u16> =
                            shuttle::future::block_on(r.iter(0))
                                .into_iter()
                                .collect();
                        let hi = set_issued.lock().unwrap().clone();
                        if *set_done.lock().unwrap() != lo {
                            fill_raced
                                .store(true, std::sync::atomic::Ordering::SeqCst);
                        }
                        if !lo.is_subset(&got) || !got.is_subset(&hi) {
                            xplore::report_violation(format!(
                                "reader: iter(s0) = {got:?}, must contain \
                                 {lo:?} and be within {hi:?} fill_raced={}",
                                fill_raced.load(std::sync::atomic::Ordering::SeqCst)
                            ));
                        }
                    } else if use_remove {
                        // value 0 = "removed"
                        let removed_before = done.load(std::sync::atomic::Ordering::SeqCst) == 0;
                        let got = shuttle::future::block_on(r.get(0));
                        if (removed_before || last == u64::MAX) && got.is_some() {
                            xplore::report_violation(format!(
                                "reader: get(k0) = {got:?} although the remove of k0 had completed before \
                                 this read began (or an earlier read already saw it absent)"
                            ));
                        }
                        if got.is_none() {
                            last = u64::MAX;
                        }
                    } else {
                        let lo = done.load(std::sync::atomic::Ordering::SeqCst);
                        if std::env::var("VH_TRACE").is_ok() {
                            eprintln!("[reader] get(k0) begins, done={lo}");
                        }
                        let got = shuttle::future::block_on(r.get(0));
                        if std::env::var("VH_TRACE").is_ok() {
                            eprintln!("[reader] get(k0) = {got:?}");
                        }
                        let hi = issued.load(std::sync::atomic::Ordering::SeqCst);
                        if done.load(std::sync::atomic::Ordering::SeqCst) != lo {
                            fill_raced
                                .store(true, std::sync::atomic::Ordering::SeqCst);
                        }
                        let g = got.unwrap_or(0);
                        if g < lo || g > hi || g < last {
                            xplore::report_violation(format!(
                                "reader: get(k0) = {got:?} but the last \
                                 completed write is {lo}, issued {hi}, \
                                 previously seen {last} fill_raced={}",
                                fill_raced.load(std::sync::atomic::Ordering::SeqCst)
                            ));
                        }
                        last = g;
                    }
                }
            }));
        }
        {
            let (rig, done, issued, set_done, set_issued) = (
                rig.clone(),
                done.clone(),
                issued.clone(),
                set_done.clone(),
                set_issued.clone(),
            );
            hs.push(shuttle::thread::spawn(move || {
                let r = &rig;
                if use_remove {
                    // the only write: k0 is removed (its old value is in the
                    // store and not in the cache: the reader's get is a fill)
                    let mut b = r.new_batch();
                    shuttle::future::block_on(r.single.remove(&0, &mut b));
                    done.store(0, std::sync::atomic::Ordering::SeqCst);
                    r.submit(b);
                    return;
                }
                for v in 2..=3u64 {
                    let mut b = r.new_batch();
                    if use_set {
                        set_issued.lock().unwrap().insert(v as u16);
                        shuttle::future::block_on(r.set.insert(0, v as u16, &mut b));
                        set_done.lock().unwrap().insert(v as u16);
                    } else {
                        issued.store(v, std::sync::atomic::Ordering::SeqCst);
                        shuttle::future::block_on(r.single.insert(0, VA(v), &mut b));
                        done.store(v, std::sync::atomic::Ordering::SeqCst);
                        if std::env::var("VH_TRACE").is_ok() {
                            eprintln!("[writer] insert k0={v} done");
                        }
                    }
                    r.submit(b);
                    if v == 2 {
                        shuttle::future::block_on(async {
                            for k in 140..180u8 {
                                if use_set {
                                    let _ = r.iter(k).await;
                                } else {
                                    let _ = r.get(k).await;
                                }
                            }
                        });
                    }
                }
            }));
        }
        for h in hs {
            let _ = h.join();
        }
        xplore::exploring(false);
        let Ok(mut r) = Arc::try_unwrap(rig) else {
            panic!("rig still shared");
        };
        let fin = shuttle::future::block_on(r.get(0));
        let fs = shuttle::future::block_on(r.iter(0));
        let raced = fill_raced.load(std::sync::atomic::Ordering::SeqCst);
        if use_remove {
            if fin.is_some() {
                xplore::report_violation(format!("final get(k0) = {fin:?} after the remove"));
            }
        } else if !use_set && fin != Some(3) {
            xplore::report_violation(format!(
                "final get(k0) = {fin:?}, expected 3 fill_raced={raced}"
            ));
        }
        if use_set {
            let gs: std::collections::BTreeSet<u16> = fs.into_iter().collect();
            if gs != [1u16, 2, 3].into_iter().collect() {
                xplore::report_violation(format!(
                    "final iter(s0) = {gs:?} fill_raced={raced}"
                ));
            }
        }
        xplore::observe(format!("{fin:?}"));
        r.shutdown();
    })
}

pub fn s_params(thorough: bool) -> Vec<(SP, usize)> {
    let mut v = vec![
        (SP { name: "wide", cap: 1, grouping: Grouping::Never, workers: 1 }, 2),
        (SP { name: "set", cap: 1, grouping: Grouping::Never, workers: 1 }, 2),
        (SP { name: "remove", cap: 1, grouping: Grouping::Never, workers: 1 }, 2),
    ];
    if thorough {
        v = vec![
            (SP { name: "wide", cap: 1, grouping: Grouping::Never, workers: 1 }, 3),
            (SP { name: "wide", cap: 2, grouping: Grouping::UpTo(2), workers: 2 }, 3),
            (SP { name: "set", cap: 1, grouping: Grouping::Never, workers: 1 }, 3),
            (SP { name: "remove", cap: 1, grouping: Grouping::Never, workers: 1 }, 3),
            (SP { name: "remove", cap: 4, grouping: Grouping::UpTo(2), workers: 2 }, 3),
        ];
    }
    v
}

pub fn run_s(rep: &mut Report, thorough: bool) {
    let threads = crate::report::threads();
    let mut out = Vec::new();
    let _ = threads;
    for (idx, (p, d)) in s_params(thorough).iter().enumerate() {
        let Some(o) = crate::report::explore_isolated(
            rep, "c09s", idx, p.name, thorough,
        ) else {
            continue;
        };
        rep.evaluations += o.executions;
        rep.distinct_nontrivial += o.sigs;
        out.push(json!({"scenario": format!("{p:?}"), "bound": d,
            "schedules": o.executions, "max_depth": o.max_depth,
            "distinct_outcomes": o.outcomes,
            "failures": o.failures.len()}));
        if let Some(c) = &o.cap_hit {
            rep.cap(format!("S {}: {c}", p.name));
        }
        if let Some(m) = o.machinery_error {
            rep.machinery_errors.push(m);
        }
        for f in &o.failures {
            rep.violation(Violation {
                what: format!("S {} {:?}: {}", p.name, f.kind, f.msg),
                tags: {
                    let mut t = vec![format!("{:?}", f.kind)];
                    if f.msg.contains("fill_raced=true") {
                        t.push(format!("{}-cache-fill-overlapped-a-write", p.name));
                    }
                    t
                },
                replay: json!({"check": "c09s", "thorough": thorough,
                    "scenario_index": idx, "schedule": sched_json(&f.schedule)}),
            });
        }
    }
    rep.extra.insert("s_scenarios".into(), json!(out));
}

pub fn child_s(idx: usize) {
    let thorough = crate::report::tier() == "thorough";
    let (p, d) = s_params(thorough)[idx].clone();
    let mut cfg = xplore::Cfg::new(d);
    cfg.max_failures = 1_000_000;
    let o = xplore::explore_parallel(&cfg, crate::report::threads(), s_scenario(p));
    crate::report::emit_child_result(&o.to_json());
}

pub fn check() -> i32 {
    let mut rep = Report::new("C09", "exploration");
    let thorough = rep.is_thorough();
    rep.rule = "H: every operation sequence up to the listed depth over the \
                listed alphabet (writes into a fresh batch or one of two open \
                batches, submits in any order, explicit pipeline steps \
                serialize/commit/notify = that pipeline thread runs until it \
                blocks, burst of 40 foreign keys forcing maintenance and \
                evictions, reads), per map kind (single, dynamic with two \
                value types under one key, key-of-set incl. a set beyond the \
                1024-element threshold), cache capacity and store grouping \
                policy, on the real DbBacked<MemKv> maps and write-behind \
                threads; every read is compared with plain reference maps; at \
                the end open batches are submitted, everything is read again, \
                the pipeline is shut down and fresh maps over the same store \
                are read. A sequence is non-trivial if all its ops were \
                enabled. S: reader thread vs writer thread vs pipeline \
                threads, all schedules with <= d deviations"
        .into();
    rep.assumptions = vec![
        "pipeline progress is enumerated at the granularity 'a pipeline thread \
         runs until it blocks' in H; finer interleavings only in S (bounded)"
            .into(),
        "1-2 keys, 1-2 elements; values unique per write".into(),
    ];
    run_h(&mut rep, thorough);
    run_s(&mut rep, thorough);
    rep.finish()
}

pub fn replay(v: &Value) -> i32 {
    let thorough = v["thorough"].as_bool().unwrap_or(false);
    match v["check"].as_str().unwrap_or("") {
        "c09h" => {
            let (c, _) = confs(thorough)[v["conf_index"].as_u64().unwrap() as usize];
            let a = alphabet(c.mode);
            let seq: Vec<Op> = v["sequence"]
                .as_array()
                .unwrap()
                .iter()
                .map(|i| a[i.as_u64().unwrap() as usize].clone())
                .collect();
            println!(
                "{c:?}: {:?}",
                seq.iter().map(Op::short).collect::<Vec<_>>()
            );
            let run = |seq: Vec<Op>| {
                xplore::run_default(move || {
                    shuttle::future::block_on(run_seq(c, &seq)).violation
                })
            };
            let (a1, a2) = (run(seq.clone()), run(seq));
            match (a1, a2) {
                (Ok(x), Ok(y)) => {
                    if x != y {
                        eprintln!("replay not deterministic");
                        return 2;
                    }
                    match x {
                        Some(m) => {
                            println!("replayed failure: {m}");
                            1
                        }
                        None => 0,
                    }
                }
                (Err(e), _) | (_, Err(e)) => {
                    println!("replayed failure: {:?} {}", e.kind, e.msg);
                    1
                }
            }
        }
        _ => {
            let (p, _) = s_params(thorough)
                [v["scenario_index"].as_u64().unwrap() as usize]
                .clone();
            let s = sched_from_json(&v["schedule"]);
            let o1 = xplore::replay(&s, s_scenario(p.clone()));
            let o2 = xplore::replay(&s, s_scenario(p));
            let m1: Vec<_> = o1.failures.iter().map(|f| f.msg.clone()).collect();
            let m2: Vec<_> = o2.failures.iter().map(|f| f.msg.clone()).collect();
            if m1 != m2 {
                eprintln!("replay is not deterministic");
                return 2;
            }
            for m in &m1 {
                println!("replayed failure: {m}");
            }
            if m1.is_empty() { 0 } else { 1 }
        }
    }
}
