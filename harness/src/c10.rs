//! C10 — write-behind applies every batch exactly once, in order, by
//! shutdown.

use std::sync::Arc;

use qbice::{
    serialize::Plugin,
    storage::{
        key_of_set_map::KeyOfSetMap,
        kv_database::{KvDatabase, KvDatabaseFactory, SerializationBuffer},
        single_map::SingleMap,
    },
};
use serde_json::{Value, json};

use crate::{
    memkv::{self, Content, Grouping, MemKvFactory, Op},
    report::{Report, Violation, sched_from_json, sched_json},
    store::{self, ColS, ColW, VA},
    xplore,
};

#[derive(Clone, Debug)]
pub struct P {
    pub batches: usize,
    /// submission order (indices of batches in creation order)
    pub order: Vec<usize>,
    pub submitters: usize,
    pub workers: usize,
    pub grouping: Grouping,
    /// index of a batch that is created and submitted without any write
    pub empty: Option<usize>,
}

fn permutations(n: usize) -> Vec<Vec<usize>> {
    fn rec(cur: &mut Vec<usize>, used: &mut Vec<bool>, out: &mut Vec<Vec<usize>>) {
        if cur.len() == used.len() {
            out.push(cur.clone());
            return;
        }
        for i in 0..used.len() {
            if !used[i] {
                used[i] = true;
                cur.push(i);
                rec(cur, used, out);
                cur.pop();
                used[i] = false;
            }
        }
    }
    let mut out = Vec::new();
    rec(&mut Vec::new(), &mut vec![false; n], &mut out);
    out
}

/// what batch `i` writes: overlapping key k0 and set s0, plus a private key
fn expected_ops(i: usize) -> Vec<Op> {
    let st = memkv::new_state(Grouping::Never, false);
    let db = MemKvFactory(st).open(Plugin::default()).unwrap();
    let mut buf = db.serialization_buffer();
    buf.put::<ColW, VA>(&0u8, &VA(i as u64 + 1));
    buf.put::<ColW, VA>(&(i as u8 + 1), &VA(100 + i as u64));
    buf.insert_member::<ColS>(&0u8, &(i as u16));
    if i > 0 {
        buf.delete_member::<ColS>(&0u8, &(i as u16 - 1));
    }
    if i == 2 {
        buf.delete::<ColW, VA>(&1u8);
    }
    buf.ops().to_vec()
}

pub fn scenario(p: P) -> Arc<dyn Fn() + Send + Sync> {
    Arc::new(move || {
        let p = p.clone();
        xplore::exploring(false);
        let st = memkv::new_state(p.grouping, true);
        let rig = Arc::new(store::open(st.clone(), 4, p.workers));
        let mut batches = Vec::new();
        shuttle::future::block_on(async {
            for i in 0..p.batches {
                let mut b = rig.new_batch();
                if p.empty == Some(i) {
                    batches.push(Some(b));
                    continue;
                }
                rig.single.insert(0, VA(i as u64 + 1), &mut b).await;
                rig.single.insert(i as u8 + 1, VA(100 + i as u64), &mut b).await;
                rig.set.insert(0, i as u16, &mut b).await;
                if i > 0 {
                    rig.set.remove(&0, &(i as u16 - 1), &mut b).await;
                }
                if i == 2 {
                    rig.single.remove(&1, &mut b).await;
                }
                batches.push(Some(b));
            }
        });

        xplore::exploring(true);
        // distribute the submission order over the submitter threads
        let mut per: Vec<Vec<(usize, store::Batch)>> =
            (0..p.submitters).map(|_| Vec::new()).collect();
        for (pos, bi) in p.order.iter().enumerate() {
            per[pos % p.submitters].push((*bi, batches[*bi].take().unwrap()));
        }
        let mut hs = Vec::new();
        // (batch, physical commits completed when its submit returned):
        // schedule dependent, used only to count distinct outcomes
        let progress = Arc::new(std::sync::Mutex::new(Vec::<(usize, usize)>::new()));
        for mine in per {
            let (rig, st, progress) = (rig.clone(), st.clone(), progress.clone());
            hs.push(shuttle::thread::spawn(move || {
                for (bi, b) in mine {
                    rig.submit(b);
                    let n = st.lock().unwrap().log.len();
                    progress.lock().unwrap().push((bi, n));
                }
            }));
        }
        for h in hs {
            let _ = h.join();
        }
        let Ok(mut rig) = Arc::try_unwrap(rig) else { panic!("rig shared") };
        rig.shutdown();
        xplore::exploring(false);

        // ---------------- oracle ----------------
        let s = st.lock().unwrap();
        let log: Vec<Vec<Op>> = s.log.clone();
        drop(s);
        let expected: Vec<Vec<Op>> = (0..p.batches)
            .map(|i| if p.empty == Some(i) { Vec::new() } else { expected_ops(i) })
            .collect();
        let batch_of = |op: &Op| -> Vec<usize> {
            expected
                .iter()
                .enumerate()
                .filter(|(_, e)| e.contains(op))
                .map(|(i, _)| i)
                .collect()
        };
        // exactly once
        let mut seen: Vec<Op> = log.iter().flatten().cloned().collect();
        let mut want: Vec<Op> = expected.iter().flatten().cloned().collect();
        seen.sort();
        want.sort();
        if seen != want {
            xplore::report_violation(format!(
                "commit log holds {} ops, the submitted batches {} (exactly \
                 once violated); log groups {:?}",
                seen.len(),
                want.len(),
                log.iter().map(Vec::len).collect::<Vec<_>>()
            ));
        }
        // in creation order, every logical batch inside one physical commit
        let mut last = 0usize;
        let mut where_: Vec<Option<usize>> = vec![None; p.batches];
        for (ci, c) in log.iter().enumerate() {
            let mut idx: Vec<usize> = c.iter().flat_map(|o| batch_of(o)).collect();
            idx.sort_unstable();
            idx.dedup();
            for i in &idx {
                if *i < last {
                    xplore::report_violation(format!(
                        "batch {i} committed after batch {last} (commit {ci})"
                    ));
                }
                if let Some(w) = where_[*i] {
                    if w != ci {
                        xplore::report_violation(format!(
                            "batch {i} split over commits {w} and {ci}"
                        ));
                    }
                }
                where_[*i] = Some(ci);
            }
            if let Some(m) = idx.iter().max() {
                last = last.max(*m);
            }
        }
        // final content == sequential application in creation order
        let fin = Content::from_log(&log);
        let model = Content::from_log(&expected);
        if fin != model {
            xplore::report_violation(
                "final store content differs from applying the batches in \
                 creation order"
                    .to_string(),
            );
        }
        xplore::observe(format!(
            "{:?}{:?}",
            log.iter().map(Vec::len).collect::<Vec<_>>(),
            progress.lock().unwrap()
        ));
    })
}

pub fn params(thorough: bool) -> Vec<(P, usize)> {
    let mut v = Vec::new();
    let n = 3;
    for order in permutations(n) {
        for (workers, grouping) in [
            (1usize, Grouping::Never),
            (2, Grouping::UpTo(2)),
            (3, Grouping::Alternate),
        ] {
            if !thorough && workers == 3 && order[0] == 0 {
                continue;
            }
            v.push((
                P { batches: n, order: order.clone(), submitters: 2, workers, grouping, empty: None },
                if thorough { 3 } else { 2 },
            ));
        }
    }
    // a store that changes its mind between two questions about one batch
    for (order, workers) in [(vec![0usize, 1, 2], 1usize), (vec![2, 0, 1], 2), (vec![1, 2, 0], 1)] {
        v.push((
            P { batches: 3, order, submitters: 2, workers, grouping: Grouping::FirstAskOnly, empty: None },
            if thorough { 3 } else { 2 },
        ));
    }
    // one of the batches carries no write at all
    for (order, empty, workers, grouping) in [
        (vec![0, 1, 2], 0usize, 1usize, Grouping::Never),
        (vec![2, 1, 0], 1, 2, Grouping::UpTo(2)),
        (vec![1, 0, 2], 1, 1, Grouping::Alternate),
    ] {
        v.push((
            P { batches: 3, order, submitters: 2, workers, grouping, empty: Some(empty) },
            if thorough { 3 } else { 2 },
        ));
    }
    if thorough {
        for order in [vec![3, 2, 1, 0], vec![1, 3, 0, 2], vec![2, 0, 3, 1]] {
            v.push((
                P { batches: 4, order, submitters: 3, workers: 2, grouping: Grouping::UpTo(2), empty: None },
                2,
            ));
        }
    }
    v
}

fn p_json(p: &P) -> Value {
    json!({"batches": p.batches, "submission_order": p.order,
        "submitters": p.submitters, "serializer_workers": p.workers, "empty_batch": p.empty,
        "grouping": format!("{:?}", p.grouping)})
}

pub fn child(idx: usize) {
    let thorough = crate::report::tier() == "thorough";
    let (p, d) = params(thorough)[idx].clone();
    let mut cfg = xplore::Cfg::new(d);
    cfg.max_failures = 30;
    let o = xplore::explore_parallel(&cfg, crate::report::threads(), scenario(p));
    crate::report::emit_child_result(&o.to_json());
}

pub fn check() -> i32 {
    let mut rep = Report::new("C10", "exploration");
    let thorough = rep.is_thorough();
    rep.rule = "every schedule with <= d deviations of 2-3 submitter threads + \
                1-3 serializer threads + committer + notifier (all threads of \
                the real WriteBehind run as scheduler tasks) for every \
                submission order of 3 (thorough: also 4) batches created in \
                one order and filled with overlapping keys/elements through \
                the cache maps, x store grouping policy; then drop of the \
                write manager. Oracles per execution on the MemKv commit log: \
                every submitted op exactly once, batches in creation order \
                across physical commits, no logical batch split, final \
                content == sequential application, drop returns only after \
                the last commit, no deadlock. distinct = (step, runnable-set) \
                signatures"
        .into();
    rep.assumptions = vec![
        "<= d deviations; channel operations, lock acquisitions, atomics and \
         store commits are the scheduling points"
            .into(),
    ];
    let mut scen = Vec::new();
    for (idx, (p, d)) in params(thorough).iter().enumerate() {
        let Some(o) = crate::report::explore_isolated(
            &mut rep, "c10", idx, "c10", thorough,
        ) else {
            continue;
        };
        rep.evaluations += o.executions;
        rep.distinct_nontrivial += o.sigs;
        scen.push(json!({"scenario": p_json(p), "bound": d,
            "schedules": o.executions, "max_depth": o.max_depth,
            "distinct_outcomes": o.outcomes, "failures": o.failures.len(),
            "cap": o.cap_hit}));
        if let Some(c) = &o.cap_hit {
            rep.cap(c.clone());
        }
        if let Some(m) = o.machinery_error {
            rep.machinery_errors.push(m);
        }
        for f in &o.failures {
            rep.violation(Violation {
                what: format!("{:?} {:?}: {}", p_json(p).to_string(), f.kind, f.msg),
                tags: vec![format!("{:?}", f.kind)],
                replay: json!({"check": "c10", "thorough": thorough,
                    "scenario_index": idx, "schedule": sched_json(&f.schedule)}),
            });
        }
        rep.sample(json!({"scenario": p_json(p), "bound": d,
                          "schedules": o.executions}));
    }
    rep.extra.insert("scenarios".into(), json!(scen));
    rep.finish()
}

pub fn replay(v: &Value) -> i32 {
    let thorough = v["thorough"].as_bool().unwrap_or(false);
    let (p, _) =
        params(thorough)[v["scenario_index"].as_u64().unwrap() as usize].clone();
    let s = sched_from_json(&v["schedule"]);
    let o1 = xplore::replay(&s, scenario(p.clone()));
    let o2 = xplore::replay(&s, scenario(p));
    let m1: Vec<_> = o1.failures.iter().map(|f| f.msg.clone()).collect();
    let m2: Vec<_> = o2.failures.iter().map(|f| f.msg.clone()).collect();
    if m1 != m2 {
        eprintln!("replay is not deterministic");
        return 2;
    }
    for m in &m1 {
        println!("replayed failure: {m}");
    }
    if m1.is_empty() { 0 } else { 1 }
}
