//! C11 — the shipped backends (RocksDB, Fjall) honour the key-value contract
//! and isolate keys. The exploration itself lives in the `vkv` binary (own
//! crate: the backends are built without the `verif` feature and RocksDB's
//! native threads stay outside the shuttle runtime); this module fans the
//! parts out over child processes, merges their coverage and turns aborts /
//! hangs of a backend into violations.

use std::{
    path::PathBuf,
    sync::{Arc, Mutex},
    time::Duration,
};

use serde_json::{Value, json};

use crate::report::{self, Child, Report, Violation};

fn vkv_exe() -> PathBuf {
    let exe = std::env::current_exe().expect("current exe");
    exe.parent().unwrap().join("vkv")
}

pub fn check() -> i32 {
    let mut rep = Report::new("C11", "exploration");
    let thorough = rep.is_thorough();
    rep.rule = "for each shipped backend (RocksDB, Fjall), on the real database in a scratch directory, against a plain \
                reference map. SWEEP: a universe of ~400 (quick) / ~470 (thorough) logical cells = (wide column, value \
                type, key) and (set column, key, element) over 13 columns (prefixed / suffixed discriminants of fixed, \
                variable and empty width, discriminants that are prefixes of one another, unit keys and unit values, \
                nested keys, raw fixed-width keys, twin columns with identical bytes) and keys/elements that are empty, \
                prefix/extension related, 0xFF-heavy with same-length neighbours, at the 127/128 and 255/256/257-byte \
                length boundaries and multi-kilobyte; cells are written one per batch (forward and reverse order, \
                through the direct and the serialization-buffer write path) and after EVERY write the whole universe \
                (every point read, every member scan) is compared; then every cell is deleted and rewritten alone in \
                the full context; reopen points; whole-universe batches; delete+put+delete of one cell inside one \
                batch. HISTORIES: on a 16-cell universe of maximally colliding cells every history of <= 3 \
                single-operation batches, every [2-operation batch (mixed write paths), single] and [single, \
                2-operation batch], abandoned (filled, never committed) batches anywhere, reopen after every step of \
                <= 2-batch histories; after every step the whole universe is compared and before every commit the \
                touched cells are read (uncommitted batches invisible). distinct = cells + history slices"
        .into();
    rep.assumptions = vec![
        "atomicity of a batch is observed sequentially (all operations of a committed batch visible, none of an \
         abandoned one); a crash inside a backend commit (torn native write) is not injectable into RocksDB / Fjall \
         from here and is not explored"
            .into(),
        "one process, one handle; close = dropping the last handle".into(),
    ];
    let exe = vkv_exe();
    if !exe.exists() {
        rep.machinery_errors.push(format!("{} is missing (cargo build -p vkv)", exe.display()));
        return rep.finish();
    }
    let tier = rep.tier.clone();
    let slices = if thorough { 16 } else { 8 };
    let mut jobs: Vec<(String, String)> = Vec::new();
    for b in ["rocksdb", "fjall"] {
        for v in 0..4 {
            jobs.push((b.into(), format!("sweep:{v}")));
        }
        for s in 0..slices {
            jobs.push((b.into(), format!("hist:{s}:{slices}")));
        }
    }
    let timeout = Duration::from_secs(if thorough { 7200 } else { 900 });
    let queue = Arc::new(Mutex::new(jobs.into_iter().enumerate().collect::<Vec<_>>()));
    let results: Arc<Mutex<Vec<(usize, String, String, Child)>>> = Arc::new(Mutex::new(Vec::new()));
    let mut hs = Vec::new();
    for _ in 0..report::threads() {
        let (queue, results, exe, tier) = (queue.clone(), results.clone(), exe.clone(), tier.clone());
        hs.push(std::thread::spawn(move || {
            loop {
                let Some((i, (b, part))) = queue.lock().unwrap().pop() else { break };
                let r = report::run_exe(&exe, &["run".into(), b.clone(), tier.clone(), part.clone()], timeout);
                results.lock().unwrap().push((i, b, part, r));
            }
        }));
    }
    for h in hs {
        let _ = h.join();
    }
    let mut results = std::mem::take(&mut *results.lock().unwrap());
    results.sort_by_key(|r| r.0);
    let mut parts: Vec<Value> = Vec::new();
    let mut distinct = std::collections::BTreeSet::new();
    let (mut reads, mut scans, mut commits, mut reopens, mut hist) = (0u64, 0u64, 0u64, 0u64, 0u64);
    for (_, b, part, r) in results {
        match r {
            Child::Done(v) => {
                rep.evaluations += v["evaluations"].as_u64().unwrap_or(0);
                for d in v["distinct"].as_array().into_iter().flatten() {
                    distinct.insert(d.as_str().unwrap_or("").to_string());
                }
                for p in v["parts"].as_array().into_iter().flatten() {
                    reads += p["point_reads"].as_u64().unwrap_or(0);
                    scans += p["scans"].as_u64().unwrap_or(0);
                    commits += p["commits"].as_u64().unwrap_or(0);
                    reopens += p["reopens"].as_u64().unwrap_or(0);
                    hist += p["histories"].as_u64().unwrap_or(0);
                    parts.push(p.clone());
                }
                for c in v["caps"].as_array().into_iter().flatten() {
                    rep.cap(c.as_str().unwrap_or("").to_string());
                }
                for viol in v["violations"].as_array().into_iter().flatten() {
                    let mut replay = viol["replay"].clone();
                    replay["tier"] = json!(tier);
                    rep.violation(Violation {
                        what: viol["what"].as_str().unwrap_or("").to_string(),
                        tags: vec![],
                        replay,
                    });
                }
            }
            Child::Crashed(m) => rep.violation(Violation {
                what: format!("[{b}/{part}] the backend took the process down: {m}"),
                tags: vec!["process-aborted".into()],
                replay: json!({"check": "c11", "backend": b, "part": part, "tier": tier}),
            }),
            Child::Machinery(m) => rep.machinery_errors.push(m),
            Child::TimedOut => rep.violation(Violation {
                what: format!("[{b}/{part}] did not finish within {timeout:?}"),
                tags: vec!["hang".into()],
                replay: json!({"check": "c11", "backend": b, "part": part, "tier": tier}),
            }),
        }
    }
    rep.distinct_nontrivial = distinct.len() as u64;
    rep.extra.insert("point_reads_compared".into(), json!(reads));
    rep.extra.insert("member_scans_compared".into(), json!(scans));
    rep.extra.insert("commits".into(), json!(commits));
    rep.extra.insert("reopens".into(), json!(reopens));
    rep.extra.insert("histories".into(), json!(hist));
    rep.extra.insert("parts".into(), json!(parts));
    rep.sample(json!({"cells": distinct.iter().take(6).collect::<Vec<_>>()}));
    rep.finish()
}

pub fn replay(r: &Value) -> i32 {
    let exe = vkv_exe();
    if r.get("steps").is_some() {
        let tmp = std::env::temp_dir().join(format!("c11-replay-{}.json", std::process::id()));
        std::fs::write(&tmp, serde_json::to_string(&json!({"replay": r})).unwrap()).unwrap();
        let st = std::process::Command::new(&exe).arg("replay").arg(&tmp).status();
        let _ = std::fs::remove_file(&tmp);
        return match st {
            Ok(s) if s.success() => 0,
            Ok(s) => {
                if s.code() != Some(1) {
                    println!("replay: backend process ended with {s}");
                }
                1
            }
            Err(e) => {
                eprintln!("cannot run {}: {e}", exe.display());
                2
            }
        };
    }
    // a crashed / hung part: run the part again
    let args: Vec<String> = vec![
        "run".into(),
        r["backend"].as_str().unwrap_or("rocksdb").into(),
        r["tier"].as_str().unwrap_or("quick").into(),
        r["part"].as_str().unwrap_or("sweep:0").into(),
    ];
    match report::run_exe(&exe, &args, Duration::from_secs(7200)) {
        Child::Done(v) => {
            let n = v["violations"].as_array().map_or(0, |a| a.len());
            println!("replay: part finished, {n} violation(s)");
            for x in v["violations"].as_array().into_iter().flatten() {
                println!("  {}", x["what"].as_str().unwrap_or(""));
            }
            i32::from(n > 0)
        }
        Child::Crashed(m) => {
            println!("replay: {m}");
            1
        }
        Child::TimedOut => {
            println!("replay: timed out");
            1
        }
        Child::Machinery(m) => {
            eprintln!("{m}");
            2
        }
    }
}
