//! C12 (serialization round trips), C13 (stable hashes), C14 (identities):
//! exhaustive enumeration of a constructor-closed value / type universe.

use serde_json::{Value, json};

use crate::{
    pq::{QF, QIn, QN, QP, QX},
    report::{Child, Report, Violation},
};
use vt::Ctx;

pub fn check_c12() -> i32 {
    let mut rep = Report::new("C12", "exploration");
    set_rich(rep.is_thorough());
    rep.rule = "every type of a universe closed under the provided \
                constructors (primitives at every width, char, String, (), \
                Duration, PathBuf, NonZero*, tuples to arity 4, arrays, \
                Vec/VecDeque/LinkedList/HashMap/HashSet/BTreeMap/BTreeSet, \
                Box/Rc/Arc/Cow/Cell/RefCell/Wrapping/Reverse, \
                Option/Result/Bound, ranges, derived generic structs and \
                enums) to nesting depth 2 plus selected depth-3 chains; for \
                every value of the type's domain (u8/i8/u16/i16/bool \
                exhaustive; wider integers every value within +-2 of every \
                7-bit boundary, zigzag boundaries, 0, +-1, MIN/MAX; chars at \
                UTF-8 length boundaries; containers of length 0-3): \
                decode(encode v) == v and the decoder consumed exactly the \
                bytes written; over all values of a type sorted by encoding: \
                no encoding is a prefix of (or equal to) another value's; \
                sliding triples encoded back to back are read back in \
                sequence. Interned handles: every structure shape with repeated handles of one and of different types (equal content hash), decoded with the same and with a fresh interner (shared with C15). distinct = values"
        .into();
    rep.rule.push_str(
        "; also Box/Rc/Arc of [T], str and Path, Cow of [T]/str/Path, PhantomData, every NonZero width, every atomic \
         integer, RangeFrom/RangeTo/RangeToInclusive/RangeFull, DashMap/DashSet, tuples to arity 12 (every position \
         varied on its own), arrays of length 0-4, 32, 33; plus, for every value, every construction variant of it (ring layouts, insertion orders, capacities) and \
         generated derived shapes with #[serialize(skip)] on every subset of 1-3 fields. OPTIONAL FEATURES (second \
         build, binary vopt): SmallVec<[T;N]> (N = 0,1,2,4; inline, at the boundary, spilled, spilled-then-shrunk) and \
         BitVec<T,O> for T in {u8,u16,u32,usize} x O in {Lsb0,Msb0}: every bit string to length 10 and boundary \
         lengths 15..129 with distinguishing patterns, aligned and behind a non-zero head offset, alone and nested",
    );
    let mut ctx = vt::ser_ctx();
    match run_opt("ser", 0) {
        Ok(o) => {
            rep.extra.insert(
                "optional_feature_build".into(),
                json!({"types": o.types, "values": o.values, "adjacent_pairs": o.pairs, "triples": o.triples, "variants": o.variants}),
            );
            ctx.values += o.values;
            ctx.pairs += o.pairs;
            ctx.triples += o.triples;
            ctx.types += o.types;
            ctx.bad.extend(o.bad);
        }
        Err(e) => rep.machinery_errors.push(e),
    }
    // interned handles (first occurrence inline, later ones by reference):
    // every structure shape of the C15 encoding part
    // (inside a shuttle execution: the interner's locks are scheduler primitives)
    let (shapes, ibad) = match crate::xplore::run_default(crate::c15::encoding_part) {
        Ok(r) => r,
        Err(e) => (0, vec![format!("{:?}: {}", e.kind, e.msg)]),
    };
    ctx.values += shapes;
    for b in ibad.into_iter().take(10) {
        ctx.bad.push(format!("interned handles: {b}"));
    }
    rep.extra.insert("interned_structures".into(), json!(shapes));
    rep.evaluations = ctx.values + ctx.pairs + ctx.triples;
    rep.distinct_nontrivial = ctx.values;
    rep.extra.insert("types".into(), json!(ctx.types));
    rep.extra.insert("values".into(), json!(ctx.values));
    rep.extra.insert("adjacent_pairs_in_encoding_order".into(), json!(ctx.pairs));
    rep.extra.insert("concatenated_triples".into(), json!(ctx.triples));
    rep.sample(json!({"type": "HashMap<u8,Vec<Option<String>>>", "value": "{0: [None, Some(\"a\")]}"}));
    for b in ctx.bad {
        rep.violation(Violation {
            what: b,
            tags: vec![],
            replay: json!({"check": "c12"}),
        });
    }
    rep.finish()
}


// ---------------------------------------------------------------------------
// the `smallvec` / `bitvec` feature builds (binary `vopt`, one process per type)
// ---------------------------------------------------------------------------

fn vopt_exe() -> std::path::PathBuf {
    std::env::current_exe().expect("current exe").parent().unwrap().join("vopt")
}

fn strip_addr(s: &str) -> String {
    // `BitVec`'s Debug prints its buffer address
    let mut out = String::new();
    let mut rest = s;
    while let Some(i) = rest.find("addr: 0x") {
        out.push_str(&rest[..i]);
        let tail = &rest[i + 8..];
        let end = tail.find(|c: char| !c.is_ascii_hexdigit()).unwrap_or(tail.len());
        rest = tail[end..].strip_prefix(", ").unwrap_or(&tail[end..]);
    }
    out.push_str(rest);
    out
}

struct Opt {
    types: u64,
    values: u64,
    pairs: u64,
    triples: u64,
    variants: u64,
    digests: Vec<String>,
    bad: Vec<String>,
}

/// Runs `vopt <what> i` for every type of the optional-feature table.
fn run_opt(what: &str, salt: usize) -> Result<Opt, String> {
    let exe = vopt_exe();
    if !exe.exists() {
        return Err(format!("{} is missing (cargo build -p vopt)", exe.display()));
    }
    unsafe {
        std::env::set_var("VH_PROC_SALT", "y".repeat(salt * 777 + 1));
    }
    let t = std::time::Duration::from_secs(600);
    let names = match crate::report::run_exe(&exe, &["names".into()], t) {
        Child::Done(v) => v["names"]
            .as_array()
            .map(|a| a.iter().map(|x| x.as_str().unwrap_or("").to_string()).collect::<Vec<_>>())
            .unwrap_or_default(),
        _ => return Err("vopt names failed".into()),
    };
    let jobs = std::sync::Arc::new(std::sync::Mutex::new((0..names.len()).collect::<Vec<_>>()));
    let res = std::sync::Arc::new(std::sync::Mutex::new(Vec::new()));
    let mut hs = Vec::new();
    for _ in 0..crate::report::threads().min(names.len().max(1)) {
        let (jobs, res, exe, what) = (jobs.clone(), res.clone(), exe.clone(), what.to_string());
        hs.push(std::thread::spawn(move || {
            loop {
                let Some(i) = jobs.lock().unwrap().pop() else { break };
                let r = crate::report::run_exe(&exe, &[what.clone(), i.to_string()], t);
                res.lock().unwrap().push((i, r));
            }
        }));
    }
    for h in hs {
        let _ = h.join();
    }
    let mut res = std::mem::take(&mut *res.lock().unwrap());
    res.sort_by_key(|r| r.0);
    let mut o = Opt { types: 0, values: 0, pairs: 0, triples: 0, variants: 0, digests: vec![], bad: vec![] };
    for (i, r) in res {
        match r {
            Child::Done(v) => {
                o.types += v["types"].as_u64().unwrap_or(0);
                o.values += v["values"].as_u64().unwrap_or(0);
                o.pairs += v["pairs"].as_u64().unwrap_or(0);
                o.triples += v["triples"].as_u64().unwrap_or(0);
                o.variants += v["variants"].as_u64().unwrap_or(0);
                o.digests.push(v["digest"].as_str().unwrap_or("").to_string());
                let mut seen = 0;
                for b in v["bad"].as_array().into_iter().flatten() {
                    if seen < 4 {
                        o.bad.push(strip_addr(b.as_str().unwrap_or("")));
                    }
                    seen += 1;
                }
            }
            Child::Crashed(m) => o.bad.push(format!(
                "{}: the process died while values of this type were encoded / decoded / hashed: {m}",
                names[i]
            )),
            Child::TimedOut => o.bad.push(format!("{}: timed out", names[i])),
            Child::Machinery(m) => return Err(m),
        }
    }
    Ok(o)
}

fn hash_ctx() -> Ctx { vt::hash_ctx() }

fn set_rich(on: bool) {
    vt::vshape::RICH.store(on, std::sync::atomic::Ordering::Relaxed);
}

/// child process: prints the digest of all seeded hashes / all ids
pub fn child(what: &str) {
    set_rich(crate::report::tier() == "thorough");
    match what {
        "hashdigest" => {
            let ctx = hash_ctx();
            crate::report::emit_child_result(&json!({"digest": format!("{:032x}", ctx.digest),
                "values": ctx.values}));
        }
        _ => {
            let ids = vt::type_ids();
            let mut d: u128 = 0;
            for (_, id) in &ids {
                d = d.rotate_left(7) ^ id;
            }
            let q = query_ids();
            for (_, a, b) in &q {
                d = d.rotate_left(3) ^ a ^ b.rotate_left(64);
            }
            crate::report::emit_child_result(&json!({"digest": format!("{d:032x}"),
                "types": ids.len(), "queries": q.len()}));
        }
    }
}

fn three_processes(what: &str) -> Result<Vec<String>, String> {
    let mut out = Vec::new();
    for i in 0..3 {
        // vary the environment / address space layout between the processes
        unsafe {
            std::env::set_var("VH_PROC_SALT", "x".repeat(i * 1000 + 1));
        }
        match crate::report::run_child(
            &[what.to_string(), i.to_string()],
            std::time::Duration::from_secs(600),
        ) {
            Child::Done(v) => out.push(v["digest"].as_str().unwrap_or("").to_string()),
            Child::Crashed(m) => return Err(format!("helper process crashed: {m}")),
            Child::TimedOut => return Err("helper process timed out".into()),
            Child::Machinery(m) => return Err(m),
        }
    }
    Ok(out)
}

pub fn check_c13() -> i32 {
    let mut rep = Report::new("C13", "exploration");
    set_rich(rep.is_thorough());
    rep.rule = "same universe as C12 (types with a StableHash impl). A \
                recording StableHasher captures the flattened byte stream \
                (sub-hashes of unordered collections mirrored through the real \
                seeded SipHash-128): over all values of a type sorted by \
                stream, unequal values never feed the same stream; every \
                value hashes the same as its clone, as Box/Rc/Arc/& of it and \
                after a serialization round trip; unordered collections: all \
                insertion orders of all subsets of <=4 of 5 elements, with / \
                without reserved capacity, randomly seeded vs fixed hasher, \
                with insert+remove in the history; String/str/Cow and \
                Vec/slice agree; the digest of all seeded hashes is computed \
                in 3 separate processes (different environment size) and must \
                be identical. distinct = values"
        .into();
    rep.assumptions = vec![
        "float equality is bit identity after NaN canonicalisation (the \
         mechanism's own notion)"
            .into(),
        "128-bit SipHash collisions are not considered".into(),
    ];
    rep.rule.push_str(
        "; also Box/Rc/Arc of [T], str and Path, PhantomData, every NonZero width, atomics (hash like the value held), \
         open ranges, BinaryHeap, OsString/OsStr/CString/CStr/Path (owned = borrowed), Discriminant, tuples to arity 12, \
         arrays of length 0-4, 32, 33, & and && of every value; every construction variant of every value hashes like it. OPTIONAL FEATURES (binary vopt): the SmallVec / \
         BitVec domains of C12, per-type digests compared across 3 processes",
    );
    let mut ctx = hash_ctx();
    let own_digest = ctx.digest;
    let mut opt_digests: Vec<Vec<String>> = Vec::new();
    for salt in 0..3 {
        match run_opt("hash", salt) {
            Ok(o) => {
                if salt == 0 {
                    rep.extra.insert(
                        "optional_feature_build".into(),
                        json!({"types": o.types, "values": o.values, "adjacent_pairs": o.pairs, "variants": o.variants}),
                    );
                    ctx.values += o.values;
                    ctx.pairs += o.pairs;
                    ctx.types += o.types;
                    ctx.bad.extend(o.bad);
                }
                opt_digests.push(o.digests);
            }
            Err(e) => {
                rep.machinery_errors.push(e);
                break;
            }
        }
    }
    if opt_digests.len() == 3 && (opt_digests[0] != opt_digests[1] || opt_digests[0] != opt_digests[2]) {
        ctx.bad.push("seeded hashes of SmallVec / BitVec values differ between processes".into());
    }
    ctx.digest = own_digest;
    rep.evaluations = ctx.values + ctx.pairs;
    rep.distinct_nontrivial = ctx.values;
    rep.extra.insert("types".into(), json!(ctx.types));
    rep.extra.insert("values".into(), json!(ctx.values));
    rep.extra.insert("adjacent_pairs_in_stream_order".into(), json!(ctx.pairs));
    for b in ctx.bad {
        rep.violation(Violation {
            what: b,
            tags: vec![],
            replay: json!({"check": "c13"}),
        });
    }
    match three_processes("hashdigest") {
        Ok(d) => {
            rep.extra.insert("process_digests".into(), json!(d));
            let mine = format!("{:032x}", ctx.digest);
            if d.iter().any(|x| *x != mine) {
                rep.violation(Violation {
                    what: format!("seeded hashes differ between processes: {d:?} vs {mine}"),
                    tags: vec![],
                    replay: json!({"check": "c13"}),
                });
            }
        }
        Err(e) => rep.machinery_errors.push(e),
    }
    rep.sample(json!({"type": "HashSet<String>", "histories": "all insertion orders of {\"\", \"a\", \"ab\"}"}));
    rep.finish()
}

/// QueryIDs of all harness query keys (5 types x 256)
pub fn query_ids() -> Vec<(String, u128, u128)> {
    use qbice::stable_hash::{
        BuildStableHasher, SeededStableHasherBuilder, Sip128Hasher, StableHasher,
    };
    fn one<Q: qbice::Query>(q: &Q, name: String) -> (String, u128, u128) {
        let mut h = SeededStableHasherBuilder::<Sip128Hasher>::new(0).build_stable_hasher();
        q.stable_hash(&mut h);
        (name, Q::STABLE_TYPE_ID.as_u128(), h.finish())
    }
    let mut v = Vec::new();
    for i in 0..=255u8 {
        v.push(one(&QIn(i), format!("QIn({i})")));
        v.push(one(&QX(i), format!("QX({i})")));
        v.push(one(&QN(i), format!("QN({i})")));
        v.push(one(&QF(i), format!("QF({i})")));
        v.push(one(&QP(i), format!("QP({i})")));
    }
    v
}

pub fn check_c14() -> i32 {
    let mut rep = Report::new("C14", "exploration");
    rep.rule = "STABLE_TYPE_ID of every type of a constructor-closed universe \
                (generated from the list of hand-written Identifiable impls, \
                every one occurs: 71 nullary types; 60 unary constructors over \
                every sized nullary type incl. arrays of length 0-3, slices, \
                references, raw pointers, smart pointers, cells, ranges, \
                collections, sets under two hashers, PhantomData, derived \
                generics, and what a set / option / wrapper could be defined \
                as (map-to-unit, Result<T,()>, Box<[T]>, Vec<[T;1]>); 7 binary \
                constructors over all ordered pairs of 8 bases; tuples of \
                every arity 1-16 with one deviating element at every \
                position; array lengths around 2^8 / 2^16 / 2^32; 3-tuples in \
                every order; nestings and re-associations to depth 2): all \
                pairwise distinct (sort + adjacent compare); QueryID (type id, \
                128-bit key hash) of all 1280 harness query keys pairwise \
                distinct; the engine answers each of 5 x 40 populated keys \
                with the value of that key; the digest of all ids is computed \
                in 3 separate processes and must be identical. distinct = \
                types + query keys"
        .into();
    rep.assumptions = vec!["128-bit collisions are not considered".into()];
    let mut ids: Vec<(String, u128)> =
        vt::type_ids().into_iter().map(|(n, i)| (n.replace(' ', ""), i)).collect();
    // the smallvec / bitvec feature build: ids computed by `vopt` in three
    // processes; merged with the main universe (same spelling = same type)
    let mut opt_runs: Vec<Vec<(String, u128)>> = Vec::new();
    for salt in 0..3usize {
        unsafe {
            std::env::set_var("VH_PROC_SALT", "z".repeat(salt * 500 + 1));
        }
        match crate::report::run_exe(&vopt_exe(), &["ids".into()], std::time::Duration::from_secs(120)) {
            Child::Done(v) => opt_runs.push(
                v["ids"]
                    .as_array()
                    .into_iter()
                    .flatten()
                    .map(|p| {
                        (
                            p[0].as_str().unwrap_or("").replace(' ', ""),
                            u128::from_str_radix(p[1].as_str().unwrap_or("0"), 16).unwrap_or(0),
                        )
                    })
                    .collect(),
            ),
            _ => {
                rep.machinery_errors.push("vopt ids failed (cargo build -p vopt)".into());
                break;
            }
        }
    }
    if opt_runs.len() == 3 {
        if opt_runs[0] != opt_runs[1] || opt_runs[0] != opt_runs[2] {
            rep.violation(Violation {
                what: "stable type ids of SmallVec / BitVec types differ between processes".into(),
                tags: vec![],
                replay: json!({"check": "c14"}),
            });
        }
        rep.extra.insert("optional_feature_types".into(), json!(opt_runs[0].len()));
        for (n, i) in &opt_runs[0] {
            match ids.iter().find(|(m, _)| m == n) {
                Some((_, j)) if j == i => {}
                Some((_, j)) => rep.violation(Violation {
                    what: format!("type `{n}` has id {j:032x} in the default build and {i:032x} with the optional features"),
                    tags: vec![],
                    replay: json!({"check": "c14"}),
                }),
                None => ids.push((n.clone(), *i)),
            }
        }
    }
    let mut sorted: Vec<(u128, &str)> = ids.iter().map(|(n, i)| (*i, n.as_str())).collect();
    sorted.sort();
    for w in sorted.windows(2) {
        if w[0].0 == w[1].0 {
            rep.violation(Violation {
                what: format!(
                    "types `{}` and `{}` share the stable type id {:032x}",
                    w[0].1, w[1].1, w[0].0
                ),
                tags: vec![],
                replay: json!({"check": "c14"}),
            });
        }
    }
    let q = query_ids();
    let mut qs: Vec<((u128, u128), &str)> =
        q.iter().map(|(n, a, b)| ((*a, *b), n.as_str())).collect();
    qs.sort();
    for w in qs.windows(2) {
        if w[0].0 == w[1].0 {
            rep.violation(Violation {
                what: format!("query keys {} and {} share a QueryID", w[0].1, w[1].1),
                tags: vec![],
                replay: json!({"check": "c14"}),
            });
        }
    }
    // engine-visible aliasing: populate many keys, read each back
    match crate::xplore::run_default(|| {
        shuttle::future::block_on(async {
            use crate::{pq::*, rig};
            let mut nodes = Vec::new();
            for j in 0..40u8 {
                nodes.push(Node {
                    style: match j % 3 {
                        0 => Style::N,
                        1 => Style::F,
                        _ => Style::N,
                    },
                    body: Body::Lit(j % 5),
                });
            }
            let sh = Shared::new(Program { nodes });
            let store = crate::memkv::new_state(crate::memkv::Grouping::Never, false);
            let eng = rig::new_db_engine(&sh, store.clone(), 4, 1).await;
            let mut bad = Vec::new();
            {
                let mut s = eng.input_session().await;
                for i in 0..40u8 {
                    s.set_input(QIn(i), i % 7).await;
                }
                s.commit().await;
            }
            for round in 0..2 {
                let te = eng.clone().tracked().await;
                for i in 0..40u8 {
                    let v = rig::query(&sh, &te, Key::In(i)).await;
                    if v != i % 7 {
                        bad.push(format!("round {round}: In({i}) = {v}"));
                    }
                    let w = rig::query(&sh, &te, Key::C(i)).await;
                    if w != i % 5 {
                        bad.push(format!("round {round}: C({i}) = {w}"));
                    }
                }
            }
            drop(eng);
            // and after a restart on the same store
            let sh2 = Shared::new(sh.program.clone());
            let eng = rig::new_db_engine(&sh2, store, 4, 1).await;
            let te = eng.clone().tracked().await;
            for i in 0..40u8 {
                let v = rig::query(&sh2, &te, Key::In(i)).await;
                let w = rig::query(&sh2, &te, Key::C(i)).await;
                if v != i % 7 || w != i % 5 {
                    bad.push(format!("after restart: In({i}) = {v}, C({i}) = {w}"));
                }
            }
            drop(te);
            drop(eng);
            bad
        })
    }) {
        Ok(bad) => {
            for b in bad {
                rep.violation(Violation {
                    what: format!("aliasing in the store: {b}"),
                    tags: vec![],
                    replay: json!({"check": "c14"}),
                });
            }
        }
        Err(f) => rep.violation(Violation {
            what: format!("aliasing probe died: {:?} {}", f.kind, f.msg),
            tags: vec![],
            replay: json!({"check": "c14"}),
        }),
    }
    rep.evaluations = (ids.len() + q.len()) as u64;
    rep.distinct_nontrivial = (ids.len() + q.len()) as u64;
    rep.extra.insert("types".into(), json!(ids.len()));
    rep.extra.insert("query_keys".into(), json!(q.len()));
    match three_processes("iddigest") {
        Ok(d) => {
            rep.extra.insert("process_digests".into(), json!(d));
            if d.windows(2).any(|w| w[0] != w[1]) {
                rep.violation(Violation {
                    what: format!("ids differ between processes: {d:?}"),
                    tags: vec![],
                    replay: json!({"check": "c14"}),
                });
            }
        }
        Err(e) => rep.machinery_errors.push(e),
    }
    rep.sample(json!({"types": ["(u8,u16,String)", "(u16,u8,String)", "[[u8;2];3]", "[[u8;3];2]"]}));
    rep.finish()
}

pub fn replay(v: &Value) -> i32 {
    match v["check"].as_str().unwrap_or("") {
        "c12" => check_c12(),
        "c13" => check_c13(),
        _ => check_c14(),
    }
}
