//! C15 — interning is canonical under concurrency and survives encoding.

use std::sync::{Arc, Mutex};

use qbice::{
    Decode, Encode, Identifiable, StableHash,
    serialize::{Decoder, Encoder, Plugin, PostcardDecoder, PostcardEncoder},
    stable_hash::{SeededStableHasherBuilder, Sip128Hasher},
    storage::intern::{Interned, Interner},
};
use serde_json::{Value, json};

use crate::{
    report::{Report, Violation, sched_from_json, sched_json},
    xplore,
};

#[derive(
    Debug, Clone, PartialEq, Eq, Hash, StableHash, Encode, Decode, Identifiable,
)]
pub struct VA(pub u8);

/// same content as `VA`, different type: must never alias
#[derive(
    Debug, Clone, PartialEq, Eq, Hash, StableHash, Encode, Decode, Identifiable,
)]
pub struct VB(pub u8);

#[derive(Clone, Copy, Debug, PartialEq, Eq)]
pub enum Op {
    /// intern VA(v)
    IA(u8),
    /// intern VB(v)
    IB(u8),
    /// intern_unsized::<str>("v")
    IS(u8),
    /// get_from_hash::<VA>(hash of VA(v))
    GA(u8),
    /// clone the oldest held handle
    Clone,
    /// drop the oldest held handle
    Drop,
    Vacuum,
}

impl Op {
    fn short(&self) -> String { format!("{self:?}") }
}

pub fn op_alphabet() -> Vec<Op> {
    vec![Op::IA(1), Op::IA(2), Op::IB(1), Op::IS(1), Op::GA(1), Op::Clone, Op::Drop, Op::Vacuum]
}

#[derive(Clone)]
enum H {
    A(Interned<VA>, u8),
    B(Interned<VB>, u8),
    S(Interned<str>, u8),
}

impl H {
    fn addr(&self) -> usize {
        match self {
            H::A(h, _) => (&**h) as *const VA as usize,
            H::B(h, _) => (&**h) as *const VB as usize,
            H::S(h, _) => (&**h) as *const str as *const u8 as usize,
        }
    }

    fn class(&self) -> (u8, u8) {
        match self {
            H::A(_, v) => (0, *v),
            H::B(_, v) => (1, *v),
            H::S(_, v) => (2, *v),
        }
    }

    fn content_ok(&self) -> bool {
        match self {
            H::A(h, v) => h.0 == *v,
            H::B(h, v) => h.0 == *v,
            H::S(h, v) => &**h == v.to_string().as_str(),
        }
    }
}

type Registry = Arc<Mutex<Vec<Vec<H>>>>;

/// the invariant, evaluated atomically (no scheduling point inside)
fn check_invariant(reg: &Registry, when: &str) {
    let g = reg.lock().unwrap();
    let all: Vec<&H> = g.iter().flatten().collect();
    for (i, a) in all.iter().enumerate() {
        if !a.content_ok() {
            xplore::report_violation(format!(
                "{when}: a handle of class {:?} does not hold its value",
                a.class()
            ));
        }
        for b in all.iter().skip(i + 1) {
            let same_class = a.class() == b.class();
            let same_addr = a.addr() == b.addr();
            if same_class && !same_addr {
                xplore::report_violation(format!(
                    "{when}: two live handles of {:?} refer to different \
                     allocations",
                    a.class()
                ));
            }
            if !same_class && same_addr && a.class().0 != 2 && b.class().0 != 2 {
                xplore::report_violation(format!(
                    "{when}: handles of {:?} and {:?} share one allocation",
                    a.class(),
                    b.class()
                ));
            }
        }
    }
}

pub fn scenario(progs: Vec<Vec<Op>>) -> Arc<dyn Fn() + Send + Sync> {
    Arc::new(move || {
        xplore::exploring(false);
        let interner = Interner::new(
            2,
            SeededStableHasherBuilder::<Sip128Hasher>::new(0),
        );
        let reg: Registry = Arc::new(Mutex::new(vec![Vec::new(); progs.len()]));
        xplore::exploring(true);
        let mut hs = Vec::new();
        for (t, prog) in progs.iter().cloned().enumerate() {
            let (interner, reg) = (interner.clone(), reg.clone());
            hs.push(shuttle::thread::spawn(move || {
                for op in prog {
                    match op {
                        Op::IA(v) => {
                            let h = interner.intern(VA(v));
                            reg.lock().unwrap()[t].push(H::A(h, v));
                        }
                        Op::IB(v) => {
                            let h = interner.intern(VB(v));
                            reg.lock().unwrap()[t].push(H::B(h, v));
                        }
                        Op::IS(v) => {
                            let h: Interned<str> =
                                interner.intern_unsized(v.to_string());
                            reg.lock().unwrap()[t].push(H::S(h, v));
                        }
                        Op::GA(v) => {
                            let hash = interner.hash_128(&VA(v));
                            if let Some(h) = interner.get_from_hash::<VA>(hash) {
                                reg.lock().unwrap()[t].push(H::A(h, v));
                            }
                        }
                        Op::Clone => {
                            let c = reg.lock().unwrap()[t].first().cloned();
                            if let Some(c) = c {
                                qbice_verif_rt::point("clone");
                                reg.lock().unwrap()[t].push(c);
                            }
                        }
                        Op::Drop => {
                            let h = {
                                let mut g = reg.lock().unwrap();
                                if g[t].is_empty() { None } else { Some(g[t].remove(0)) }
                            };
                            // the handle leaves the registry first: from now
                            // on it is not "live" for the invariant
                            qbice_verif_rt::point("drop");
                            drop(h);
                        }
                        Op::Vacuum => interner.vacuum(),
                    }
                    check_invariant(&reg, "after an operation");
                    qbice_verif_rt::point("between ops");
                }
            }));
        }
        for h in hs {
            let _ = h.join();
        }
        xplore::exploring(false);
        check_invariant(&reg, "at the end");
        // everything still interned canonically afterwards
        let a = interner.intern(VA(1));
        reg.lock().unwrap()[0].push(H::A(a, 1));
        check_invariant(&reg, "after a final intern");
        let n: usize = reg.lock().unwrap().iter().map(Vec::len).sum();
        xplore::observe(format!("{n}"));
        reg.lock().unwrap().clear();
        drop(interner);
    })
}

pub fn programs(len: usize) -> Vec<Vec<Op>> {
    let a = op_alphabet();
    let mut out: Vec<Vec<Op>> = vec![vec![]];
    for _ in 0..len {
        let mut next = Vec::new();
        for p in &out {
            for o in &a {
                let mut q = p.clone();
                q.push(*o);
                next.push(q);
            }
        }
        out = next;
    }
    out
}

/// (thread programs, bound): all pairs of programs of the given length
pub fn params(thorough: bool) -> Vec<(Vec<Vec<Op>>, usize)> {
    let mut v = Vec::new();
    let ps = programs(2);
    // canonical: first thread's program index <= second's
    for (i, p) in ps.iter().enumerate() {
        for q in ps.iter().skip(i) {
            // at least one interning/lookup op somewhere
            let useful = |x: &Vec<Op>| {
                x.iter().any(|o| matches!(o, Op::IA(_) | Op::IB(_) | Op::IS(_) | Op::GA(_)))
            };
            if useful(p) && useful(q) {
                v.push((vec![p.clone(), q.clone()], if thorough { 3 } else { 2 }));
            }
        }
    }
    // selected programs of length 3: a value whose handles were all dropped
    // (dead table entry) is interned again while the other thread interns,
    // looks up or vacuums
    let t3 = [
        vec![Op::IA(1), Op::Drop, Op::IA(1)],
        vec![Op::IA(1), Op::Clone, Op::Drop],
        vec![Op::Vacuum, Op::GA(1), Op::Vacuum],
        vec![Op::IS(1), Op::Drop, Op::IS(1)],
        vec![Op::IA(1), Op::Drop, Op::Vacuum],
        vec![Op::IA(1), Op::Drop, Op::GA(1)],
    ];
    for (i, a) in t3.iter().enumerate() {
        for b in t3.iter().skip(i) {
            v.push((vec![a.clone(), b.clone()], if thorough { 4 } else { 3 }));
        }
    }
    if thorough {
        // every pair of programs of length 3
        let p3 = programs(3);
        let useful = |x: &Vec<Op>| x.iter().any(|o| matches!(o, Op::IA(_) | Op::IB(_) | Op::IS(_) | Op::GA(_)));
        for (i, p) in p3.iter().enumerate() {
            for q in p3.iter().skip(i) {
                if useful(p) && useful(q) {
                    v.push((vec![p.clone(), q.clone()], 2));
                }
            }
        }
        // three threads
        for a in &t3 {
            for b in &t3 {
                v.push((vec![a.clone(), b.clone(), t3[2].clone()], 2));
            }
        }
    }
    v
}

// ---------------------------------------------------------------------------
// encoding part
// ---------------------------------------------------------------------------

#[derive(Debug, Clone, PartialEq, Eq, Encode, Decode)]
struct Nest {
    first: Interned<VA>,
    list: Vec<Interned<VA>>,
    pair: (Interned<VB>, Option<Interned<VA>>),
    text: Vec<Interned<str>>,
    /// the same contents as `text`, interned as another type (equal content
    /// hash, different type)
    owned: Vec<Interned<String>>,
    slice: Option<(Interned<[u32]>, Interned<Vec<u32>>)>,
    /// 0-2 slice handles: the same value twice, or two different values
    slices: Vec<Interned<[u32]>>,
}

fn sharing(n: &Nest) -> Vec<usize> {
    // partition of all VA handles by allocation, as a canonical labelling
    let mut addrs: Vec<usize> = Vec::new();
    let mut label = |p: usize| {
        if let Some(i) = addrs.iter().position(|x| *x == p) {
            i
        } else {
            addrs.push(p);
            addrs.len() - 1
        }
    };
    let mut out = vec![label((&*n.first) as *const VA as usize)];
    for h in &n.list {
        out.push(label((&**h) as *const VA as usize));
    }
    if let Some(h) = &n.pair.1 {
        out.push(label((&**h) as *const VA as usize));
    }
    let mut saddrs: Vec<usize> = Vec::new();
    for s in &n.text {
        let p = (&**s) as *const str as *const u8 as usize;
        let l = if let Some(i) = saddrs.iter().position(|x| *x == p) {
            i
        } else {
            saddrs.push(p);
            saddrs.len() - 1
        };
        out.push(1000 + l);
    }
    let mut part = |base: usize, ptrs: Vec<usize>| {
        let mut seen: Vec<usize> = Vec::new();
        for p in ptrs {
            let l = if let Some(i) = seen.iter().position(|x| *x == p) {
                i
            } else {
                seen.push(p);
                seen.len() - 1
            };
            out.push(base + l);
        }
    };
    part(2000, n.slices.iter().chain(n.slice.iter().map(|s| &s.0)).map(|h| (&**h).as_ptr() as usize).collect());
    part(3000, n.owned.iter().map(|h| (&**h) as *const String as usize).collect());
    out
}

/// every shape: which VA value each position holds (values 1..=2), list
/// length 0..=3, optional handle present or not, texts 0..=2
pub fn encoding_part() -> (u64, Vec<String>) {
    let mut n = 0u64;
    let mut bad = Vec::new();
    let mk_plugin = || {
        let interner = Interner::new(2, SeededStableHasherBuilder::<Sip128Hasher>::new(0));
        let mut p = Plugin::default();
        p.insert(interner.clone());
        (interner, p)
    };
    for first in 1..=2u8 {
        for len in 0..=3usize {
            for mask in 0..(1u32 << len) {
                for opt in 0..=2u8 {
                    for texts in 0..=2usize {
                        for fresh_decoder in [false, true] {
                            let (enc_int, enc_plugin) = mk_plugin();
                            let list: Vec<Interned<VA>> = (0..len)
                                .map(|i| enc_int.intern(VA(1 + ((mask >> i) & 1) as u8)))
                                .collect();
                            let v = Nest {
                                first: enc_int.intern(VA(first)),
                                list,
                                pair: (
                                    enc_int.intern(VB(first)),
                                    if opt == 0 { None } else { Some(enc_int.intern(VA(opt))) },
                                ),
                                text: (0..texts)
                                    .map(|i| enc_int.intern_unsized((i % 1).to_string()))
                                    .collect(),
                                owned: (0..texts).map(|i| enc_int.intern((i % 1).to_string())).collect(),
                                slice: if opt == 2 {
                                    Some((
                                        enc_int.intern_unsized(vec![1u32, 2]),
                                        enc_int.intern(vec![1u32, 2]),
                                    ))
                                } else {
                                    None
                                },
                                // opt = 1: two different slices; otherwise the
                                // same slice repeated (opt = 2: a third time
                                // next to `slice`)
                                slices: (0..texts)
                                    .map(|i| {
                                        let len = if opt == 1 { 2 + i } else { 2 };
                                        enc_int.intern_unsized((1..=len as u32).collect::<Vec<u32>>())
                                    })
                                    .collect(),
                            };
                            let mut buf = Vec::new();
                            PostcardEncoder::new(&mut buf).encode(&v, &enc_plugin).unwrap();
                            let (dec_int, dec_plugin) = if fresh_decoder {
                                mk_plugin()
                            } else {
                                (enc_int.clone(), enc_plugin)
                            };
                            let mut d = PostcardDecoder::new(std::io::Cursor::new(buf.clone()));
                            let back: Nest = match d.decode(&dec_plugin) {
                                Ok(b) => b,
                                Err(e) => {
                                    bad.push(format!("decode failed for {v:?}: {e}"));
                                    continue;
                                }
                            };
                            n += 1;
                            if back != v {
                                bad.push(format!("values differ: {v:?} -> {back:?}"));
                            }
                            if sharing(&back) != sharing(&v) {
                                bad.push(format!(
                                    "sharing differs for {v:?}: {:?} vs {:?}",
                                    sharing(&v),
                                    sharing(&back)
                                ));
                            }
                            // decoded handles are canonical in the decoding
                            // interner
                            let again = dec_int.intern(VA(first));
                            if (&*again) as *const VA != (&*back.first) as *const VA {
                                bad.push(format!(
                                    "decoded handle of VA({first}) is not the \
                                     canonical one of the decoding interner"
                                ));
                            }
                            // ... every one of them, of every type
                            let mut canon = |what: String, same: bool| {
                                if !same {
                                    bad.push(format!(
                                        "decoded handle {what} is not the canonical one of the decoding \
                                         interner (interning an equal value gives another allocation) in {v:?}"
                                    ));
                                }
                            };
                            for h in back.list.iter().chain(back.pair.1.iter()) {
                                let a = dec_int.intern(VA(h.0));
                                canon(format!("{:?}", **h), std::ptr::eq(&*a, &**h));
                            }
                            {
                                let a = dec_int.intern(VB(back.pair.0.0));
                                canon(format!("{:?}", *back.pair.0), std::ptr::eq(&*a, &*back.pair.0));
                            }
                            for h in &back.text {
                                let a: Interned<str> = dec_int.intern_unsized(h.to_string());
                                canon(format!("str {:?}", &**h), std::ptr::eq(a.as_ptr(), h.as_ptr()));
                            }
                            for h in &back.owned {
                                let a = dec_int.intern((**h).clone());
                                canon(format!("String {:?}", &**h), std::ptr::eq(&*a, &**h));
                            }
                            for h in back.slices.iter().chain(back.slice.iter().map(|s| &s.0)) {
                                let a: Interned<[u32]> = dec_int.intern_unsized(h.to_vec());
                                canon(format!("[u32] {:?}", &**h), std::ptr::eq(a.as_ptr(), h.as_ptr()));
                            }
                            if let Some((_, o)) = &back.slice {
                                let a = dec_int.intern((**o).clone());
                                canon(format!("Vec<u32> {:?}", &**o), std::ptr::eq(&*a, &**o));
                            }
                            // consumed exactly the bytes written
                            if d.into_inner().position() as usize != buf.len() {
                                bad.push("decoder did not consume all bytes".to_string());
                            }
                        }
                    }
                }
            }
        }
    }
    (n, bad)
}

pub fn child(idx: usize) {
    // children explore slices of the program-pair list
    let thorough = crate::report::tier() == "thorough";
    let all = params(thorough);
    let slices = 8usize;
    let mut total: Option<xplore::Outcome> = None;
    let threads = crate::report::threads();
    let mine: Vec<(usize, (Vec<Vec<Op>>, usize))> = all
        .into_iter()
        .enumerate()
        .filter(|(i, _)| i % slices == idx)
        .collect();
    // the pairs are many and small: parallelise over pairs
    let queue = Arc::new(Mutex::new(mine));
    let merged: Arc<Mutex<Option<xplore::Outcome>>> = Arc::new(Mutex::new(None));
    std::thread::scope(|sc| {
        for _ in 0..threads {
            let (queue, merged) = (queue.clone(), merged.clone());
            std::thread::Builder::new()
                .stack_size(16 << 20)
                .spawn_scoped(sc, move || {
                    loop {
                        let it = queue.lock().unwrap().pop();
                        let Some((pi, (progs, d))) = it else { break };
                        let mut cfg = xplore::Cfg::new(d);
                        cfg.max_failures = 5;
                        let mut o = xplore::explore(&cfg, scenario(progs.clone()));
                        for f in o.failures.iter_mut() {
                            f.msg = format!("pair={pi}: {} [{:?}]", f.msg, progs);
                        }
                        let mut m = merged.lock().unwrap();
                        match &mut *m {
                            None => *m = Some(o),
                            Some(t) => xplore::merge_into(t, o),
                        }
                    }
                })
                .unwrap();
        }
    });
    if let Some(o) = merged.lock().unwrap().take() {
        total = Some(o);
    }
    let o = total.unwrap_or_else(|| xplore::explore(&xplore::Cfg::new(0), Arc::new(|| {})));
    crate::report::emit_child_result(&o.to_json());
}

pub fn check() -> i32 {
    let mut rep = Report::new("C15", "exploration");
    let thorough = rep.is_thorough();
    rep.rule = "S: every pair of thread programs of length 2 (thorough: also \
                selected triples of length 3) over {intern VA(1|2), intern \
                VB(1), intern_unsized str, get_from_hash, clone, drop oldest \
                handle, vacuum} on one real Interner (2 shards), every \
                schedule with <= d deviations (scheduling points at every \
                shard lock operation, around handle clone/drop and between \
                operations); invariant evaluated after every operation over \
                all live handles of all threads: equal (type, value) => one \
                allocation, content == value, different types never share, \
                get_from_hash returns a canonical live handle or None. V: \
                every structure shape (list length 0-3 with every value \
                pattern, optional handle, 0-2 texts, repeated handles in \
                first/reference order) encoded and decoded with the same and \
                with a fresh interner: values, sharing partition, canonicity \
                and consumed bytes. distinct = (step, runnable-set) signatures"
        .into();
    rep.assumptions = vec![
        "Arc reference-count operations are atomic steps (scheduling points \
         are placed around them by the harness)"
            .into(),
        "the vacuum thread's timer is modelled by explicit vacuum() calls".into(),
    ];
    let npairs = params(thorough).len();
    let mut sout = Vec::new();
    for idx in 0..8usize {
        let Some(o) = crate::report::explore_isolated(
            &mut rep, "c15", idx, "interner", thorough,
        ) else {
            continue;
        };
        rep.evaluations += o.executions;
        rep.distinct_nontrivial += o.sigs;
        sout.push(json!({"slice": idx, "schedules": o.executions,
            "failures": o.failures.len()}));
        if let Some(c) = &o.cap_hit {
            rep.cap(c.clone());
        }
        if let Some(m) = o.machinery_error {
            rep.machinery_errors.push(m);
        }
        for f in &o.failures {
            let pi = f
                .msg
                .split("pair=")
                .nth(1)
                .and_then(|r| r.split(':').next())
                .and_then(|n| n.parse::<usize>().ok())
                .unwrap_or(0);
            rep.violation(Violation {
                what: format!("{:?}: {}", f.kind, f.msg),
                tags: vec![format!("{:?}", f.kind)],
                replay: json!({"check": "c15", "thorough": thorough,
                    "pair_index": pi, "schedule": sched_json(&f.schedule)}),
            });
        }
    }
    rep.extra.insert("program_pairs".into(), json!(npairs));
    rep.extra.insert("slices".into(), json!(sout));

    // encoding part (inside one shuttle execution: the interner's locks are
    // scheduler primitives)
    match xplore::run_default(encoding_part) {
        Ok((n, bad)) => {
            rep.evaluations += n;
            rep.distinct_nontrivial += n;
            rep.extra.insert("encoded_structures".into(), json!(n));
            for b in bad.into_iter().take(10) {
                rep.violation(Violation {
                    what: format!("encoding: {b}"),
                    tags: vec!["encoding".into()],
                    replay: json!({"check": "c15enc"}),
                });
            }
        }
        Err(f) => rep.violation(Violation {
            what: format!("encoding part died: {:?} {}", f.kind, f.msg),
            tags: vec!["encoding".into()],
            replay: json!({"check": "c15enc"}),
        }),
    }
    rep.sample(json!({"threads": [["IA(1)", "Drop"], ["IA(1)", "Vacuum"]], "bound": 2}));
    rep.finish()
}

pub fn replay(v: &Value) -> i32 {
    if v["check"] == "c15enc" {
        return match xplore::run_default(encoding_part) {
            Ok((_, bad)) if bad.is_empty() => 0,
            Ok((_, bad)) => {
                for b in bad.iter().take(5) {
                    println!("replayed failure: {b}");
                }
                1
            }
            Err(e) => {
                println!("replayed failure: {:?} {}", e.kind, e.msg);
                1
            }
        };
    }
    let thorough = v["thorough"].as_bool().unwrap_or(false);
    let (progs, _) = params(thorough)[v["pair_index"].as_u64().unwrap() as usize].clone();
    println!("{:?}", progs.iter().map(|p| p.iter().map(Op::short).collect::<Vec<_>>()).collect::<Vec<_>>());
    let s = sched_from_json(&v["schedule"]);
    let o1 = xplore::replay(&s, scenario(progs.clone()));
    let o2 = xplore::replay(&s, scenario(progs));
    let m1: Vec<_> = o1.failures.iter().map(|f| f.msg.clone()).collect();
    let m2: Vec<_> = o2.failures.iter().map(|f| f.msg.clone()).collect();
    if m1 != m2 {
        eprintln!("replay is not deterministic");
        return 2;
    }
    for m in &m1 {
        println!("replayed failure: {m}");
    }
    if m1.is_empty() { 0 } else { 1 }
}
