//! C16 — the admission cache never evicts pinned entries and stays bounded.
//!
//! H: every sequence of macro-operations up to a depth over 2-3 named keys on
//! the real `TinyLFU` (capacities 1, 2, 3, 8; both unpin strategies), with the
//! pin state held in the value so that the lifecycle listener reads it.
//! S: the per-query lock table (tiny capacity) under schedule exploration.

use std::sync::{
    Arc, Mutex,
    atomic::{AtomicBool, AtomicUsize, Ordering},
};

use qbice::{
    engine::verif_api::LockTable,
    query::QueryID,
    storage::tiny_lfu::{
        Entry, LifecycleListener, MaintenanceMode, TinyLFU, UnpinStrategy,
    },
};
use serde_json::{Value, json};

use crate::{
    report::{Report, Violation, sched_from_json, sched_json},
    xplore,
};

#[derive(Debug, Clone)]
pub struct V {
    val: u64,
    pinned: Arc<AtomicBool>,
}

#[derive(Debug, Default)]
pub struct PinListener;

impl LifecycleListener<u16, V> for PinListener {
    fn is_pinned(&self, _key: &u16, value: &V) -> bool {
        value.pinned.load(Ordering::SeqCst)
    }
}

#[derive(Clone, Copy, Debug, PartialEq, Eq)]
pub enum Op {
    Put(u16),
    Get(u16),
    Remove(u16),
    Pin(u16),
    Unpin(u16),
    Burst,
}

impl Op {
    fn short(&self) -> String {
        match self {
            Op::Put(k) => format!("put(k{k})"),
            Op::Get(k) => format!("get(k{k})"),
            Op::Remove(k) => format!("remove(k{k})"),
            Op::Pin(k) => format!("pin(k{k})"),
            Op::Unpin(k) => format!("unpin(k{k})"),
            Op::Burst => "burst".into(),
        }
    }
}

pub fn alphabet(keys: u16) -> Vec<Op> {
    let mut v = Vec::new();
    for k in 0..keys {
        v.extend([Op::Put(k), Op::Get(k), Op::Remove(k), Op::Pin(k), Op::Unpin(k)]);
    }
    v.push(Op::Burst);
    v
}

#[derive(Clone, Copy, Debug)]
pub struct Conf {
    pub cap: usize,
    pub notify: bool,
    pub keys: u16,
    pub depth: usize,
}

#[derive(Clone, Debug)]
struct RefEntry {
    val: u64,
    pinned: bool,
    flag: Arc<AtomicBool>,
}

pub struct Out {
    pub enabled: bool,
    pub violation: Option<String>,
    pub max_resident: usize,
    pub bound: usize,
}

/// the policy's own capacity for a configured capacity (mirrors Policy::new)
fn policy_capacity(cap: usize) -> usize {
    let window = (cap as f64 * 0.01).ceil() as usize;
    let main = cap - window;
    let protected = (main as f64 * 0.8).ceil() as usize;
    let probation = (main - protected).max(1);
    window + protected + probation
}

pub fn run_seq(c: Conf, seq: &[Op]) -> Out {
    let cache: TinyLFU<u16, V, PinListener> = TinyLFU::new(
        c.cap,
        if c.notify { UnpinStrategy::Notify } else { UnpinStrategy::Poll },
        MaintenanceMode::Piggyback,
    );
    let mut model: std::collections::BTreeMap<u16, RefEntry> = Default::default();
    let mut ctr = 0u64;
    let mut next_burst = 1000u16;
    let mut universe: Vec<u16> = (0..c.keys).collect();
    let mut enabled = true;
    let mut violation: Option<String> = None;
    let mut max_resident = 0usize;
    let bound = policy_capacity(c.cap) + 33;

    let put = |cache: &TinyLFU<u16, V, PinListener>, k: u16, val: u64, flag: Arc<AtomicBool>| {
        cache.entry(k, |e| match e {
            Entry::Vacant(v) => v.insert(V { val, pinned: flag }),
            Entry::Occupied(mut o) => {
                let p = o.get().pinned.clone();
                // an update keeps the pin flag of the resident entry
                p.store(flag.load(Ordering::SeqCst) || p.load(Ordering::SeqCst), Ordering::SeqCst);
                *o.get_mut() = V { val, pinned: p };
            }
        });
    };

    for op in seq {
        enabled = true;
        match *op {
            Op::Put(k) => {
                ctr += 1;
                let (flag, pinned) = match model.get(&k) {
                    Some(e) => (e.flag.clone(), e.pinned),
                    None => (Arc::new(AtomicBool::new(false)), false),
                };
                put(&cache, k, ctr, flag.clone());
                // the resident entry may carry its own (older) flag object
                let resident_flag =
                    cache.get_map(&k, |v| v.pinned.clone()).unwrap_or(flag);
                model.insert(k, RefEntry { val: ctr, pinned, flag: resident_flag });
            }
            Op::Get(k) => {
                let got = cache.get_map(&k, |v| v.val);
                match (model.get(&k), got) {
                    (Some(e), Some(v)) if v != e.val => {
                        violation = Some(format!(
                            "get(k{k}) = {v}, latest value is {}",
                            e.val
                        ));
                    }
                    (Some(e), None) if e.pinned => {
                        violation = Some(format!(
                            "get(k{k}) = None although the entry is pinned"
                        ));
                    }
                    (Some(_), None) => {
                        model.remove(&k);
                    }
                    (None, Some(v)) => {
                        violation = Some(format!(
                            "get(k{k}) = {v} although the key was removed / \
                             never inserted"
                        ));
                    }
                    _ => {}
                }
            }
            Op::Remove(k) => {
                if model.remove(&k).is_none() {
                    enabled = false;
                } else {
                    let existed = cache.entry(k, |e| match e {
                        Entry::Occupied(o) => {
                            let _ = o.remove();
                            true
                        }
                        Entry::Vacant(_) => false,
                    });
                    let _ = existed;
                }
            }
            Op::Pin(k) => match model.get_mut(&k) {
                Some(e) if !e.pinned => {
                    // only a resident entry can be pinned by its owner
                    if cache.get_map(&k, |_| ()).is_some() {
                        e.flag.store(true, Ordering::SeqCst);
                        e.pinned = true;
                    } else {
                        model.remove(&k);
                        enabled = false;
                    }
                }
                _ => enabled = false,
            },
            Op::Unpin(k) => match model.get_mut(&k) {
                Some(e) if e.pinned => {
                    e.flag.store(false, Ordering::SeqCst);
                    e.pinned = false;
                    if c.notify {
                        cache.unpin(k);
                    }
                }
                _ => enabled = false,
            },
            Op::Burst => {
                for _ in 0..34 {
                    let k = next_burst;
                    next_burst += 1;
                    universe.push(k);
                    put(&cache, k, 0, Arc::new(AtomicBool::new(false)));
                }
            }
        }
        if violation.is_some() || !enabled {
            break;
        }
    }

    if violation.is_none() && enabled {
        // final probe of every named key + resident count over the universe
        for k in 0..c.keys {
            let got = cache.get_map(&k, |v| v.val);
            match (model.get(&k), got) {
                (Some(e), Some(v)) if v != e.val => {
                    violation = Some(format!(
                        "final: k{k} = {v}, latest value is {}",
                        e.val
                    ));
                }
                (Some(e), None) if e.pinned => {
                    violation = Some(format!(
                        "final: pinned k{k} is not resident (evicted)"
                    ));
                }
                (None, Some(v)) => {
                    violation = Some(format!(
                        "final: removed k{k} is resident with {v}"
                    ));
                }
                _ => {}
            }
        }
        let resident = universe
            .iter()
            .filter(|k| cache.get_map(k, |_| ()).is_some())
            .count();
        let pinned = model.values().filter(|e| e.pinned).count();
        max_resident = resident;
        if resident > bound + pinned {
            violation = Some(format!(
                "{resident} resident entries > policy capacity + maintenance \
                 slack ({bound}) + pinned ({pinned})"
            ));
        }
    }
    drop(cache);
    Out { enabled, violation, max_resident, bound }
}

pub fn confs(thorough: bool) -> Vec<Conf> {
    let mut v = Vec::new();
    if thorough {
        for cap in [1, 2, 3, 8] {
            for notify in [true, false] {
                v.push(Conf { cap, notify, keys: 2, depth: 7 });
            }
        }
        v.push(Conf { cap: 1, notify: true, keys: 3, depth: 6 });
        v.push(Conf { cap: 2, notify: false, keys: 3, depth: 6 });
    } else {
        for (cap, notify) in [(1, true), (1, false), (2, true), (3, false), (8, true)] {
            v.push(Conf { cap, notify, keys: 2, depth: 6 });
        }
    }
    v
}

#[derive(Default)]
struct Tot {
    runs: u64,
    nontrivial: u64,
    max_resident: usize,
    viol: Vec<(Vec<usize>, String)>,
    errs: Vec<String>,
}

fn run_subtree(c: Conf, alpha: &Arc<Vec<Op>>, prefix: Vec<usize>, tot: &Arc<Mutex<Tot>>) {
    let n = alpha.len();
    let root = prefix.len();
    let cur = Arc::new(Mutex::new((prefix, false)));
    let current: Arc<Mutex<Option<Vec<usize>>>> = Arc::new(Mutex::new(None));
    let advance = move |st: &mut (Vec<usize>, bool), descend: bool| {
        if descend && st.0.len() < c.depth {
            st.0.push(0);
            return;
        }
        loop {
            if st.0.len() <= root {
                st.1 = true;
                return;
            }
            let l = st.0.last_mut().unwrap();
            *l += 1;
            if *l < n {
                return;
            }
            st.0.pop();
        }
    };
    let (cur2, tot2, alpha2, current2) = (cur.clone(), tot.clone(), alpha.clone(), current.clone());
    let adv2 = advance.clone();
    let body = Arc::new(move || -> bool {
        let seq_idx = {
            let st = cur2.lock().unwrap();
            if st.1 {
                return false;
            }
            st.0.clone()
        };
        *current2.lock().unwrap() = Some(seq_idx.clone());
        let seq: Vec<Op> = seq_idx.iter().map(|i| alpha2[*i]).collect();
        let out = run_seq(c, &seq);
        current2.lock().unwrap().take();
        let mut t = tot2.lock().unwrap();
        t.runs += 1;
        if out.enabled {
            t.nontrivial += 1;
        }
        t.max_resident = t.max_resident.max(out.max_resident);
        if let Some(v) = &out.violation {
            if t.viol.len() < 200 {
                t.viol.push((seq_idx.clone(), v.clone()));
            }
        }
        drop(t);
        let mut st = cur2.lock().unwrap();
        adv2(&mut st, out.enabled && out.violation.is_none());
        !st.1
    });
    let (cur3, tot3, current3) = (cur.clone(), tot.clone(), current.clone());
    let on_failure = Arc::new(move |f: &xplore::Failure| -> bool {
        let seq = current3.lock().unwrap().take();
        let mut t = tot3.lock().unwrap();
        t.runs += 1;
        if let Some(seq) = seq {
            if t.viol.len() < 200 {
                t.viol.push((seq, format!("{:?}: {}", f.kind, f.msg)));
            }
        }
        drop(t);
        let mut st = cur3.lock().unwrap();
        advance(&mut st, false);
        !st.1
    });
    let o = xplore::repeat(body, on_failure);
    if let Some(m) = o.machinery_error {
        tot.lock().unwrap().errs.push(m);
    }
}

fn conf_json(c: &Conf) -> Value {
    json!({"capacity": c.cap, "unpin_strategy": if c.notify { "Notify" } else { "Poll" },
           "named_keys": c.keys, "depth": c.depth})
}

// ---------------------------------------------------------------------------
// S: lock table
// ---------------------------------------------------------------------------

fn qid(n: u8) -> QueryID {
    // distinct ids; the content does not matter for the lock table
    let h = qbice::stable_hash::Compact128::from(n as u128 + 1);
    QueryID::from_parts(h, h)
}

#[derive(Clone, Debug)]
pub struct SP {
    pub cap: u64,
    pub others: u8,
}

/// Two tasks take the exclusive lock of the SAME query (each twice) while a
/// third touches many other queries so that the table (capacity 1-2) keeps
/// evicting; a witness counter detects two holders at once.
pub fn s_scenario(p: SP) -> Arc<dyn Fn() + Send + Sync> {
    Arc::new(move || {
        let p = p.clone();
        shuttle::future::block_on(async move {
            xplore::exploring(false);
            let table = Arc::new(LockTable::new(p.cap));
            // warm: fill the table beyond capacity
            for i in 10..(10 + 40u8) {
                let _ = table.shared(&qid(i)).await;
            }
            xplore::exploring(true);
            let inside = Arc::new(AtomicUsize::new(0));
            let mut hs = Vec::new();
            for t in 0..2 {
                let (table, inside) = (table.clone(), inside.clone());
                hs.push(shuttle::future::spawn(async move {
                    for _ in 0..2 {
                        let g = table.exclusive(&qid(1)).await;
                        let n = inside.fetch_add(1, Ordering::SeqCst);
                        if n != 0 {
                            xplore::report_violation(format!(
                                "task {t} entered the exclusive section of \
                                 query 1 while another holder was inside (two \
                                 lock instances for one query)"
                            ));
                        }
                        // stay inside across scheduling points
                        qbice_verif_rt::tokio::task::yield_now().await;
                        qbice_verif_rt::tokio::task::yield_now().await;
                        inside.fetch_sub(1, Ordering::SeqCst);
                        drop(g);
                    }
                }));
            }
            {
                let table = table.clone();
                let others = p.others;
                hs.push(shuttle::future::spawn(async move {
                    for i in 0..others {
                        let g = table.shared(&qid(100 + i)).await;
                        drop(g);
                    }
                }));
            }
            for h in hs {
                let _ = h.await;
            }
            xplore::exploring(false);
            xplore::observe("done");
        });
    })
}

pub fn s_params(thorough: bool) -> Vec<(SP, usize)> {
    if thorough {
        vec![
            (SP { cap: 1, others: 40 }, 3),
            (SP { cap: 2, others: 40 }, 3),
            (SP { cap: 1, others: 70 }, 2),
        ]
    } else {
        vec![(SP { cap: 1, others: 40 }, 2), (SP { cap: 2, others: 40 }, 2)]
    }
}

pub fn child_s(idx: usize) {
    let thorough = crate::report::tier() == "thorough";
    let (p, d) = s_params(thorough)[idx].clone();
    let mut cfg = xplore::Cfg::new(d);
    cfg.max_failures = 50;
    let o = xplore::explore_parallel(&cfg, crate::report::threads(), s_scenario(p));
    crate::report::emit_child_result(&o.to_json());
}

pub fn check() -> i32 {
    let mut rep = Report::new("C16", "exploration");
    let thorough = rep.is_thorough();
    rep.rule = "H: every sequence up to the listed depth over {put (insert or \
                update), get, remove, pin, unpin (+ notification for the \
                Notify strategy), burst of 34 fresh keys} on 2-3 named keys \
                for capacities 1/2/3/8 and both unpin strategies on the real \
                TinyLFU (pin state held in the value, read by the lifecycle \
                listener); after every sequence each named key is probed: a \
                pinned key is resident with its latest value, an unpinned key \
                has its latest value or is absent, a removed key is absent, \
                and resident entries <= policy capacity + pinned + maintenance \
                slack (33). A sequence is non-trivial if all its ops were \
                enabled. S: two tasks contend for one query's exclusive lock \
                (twice each) while a third touches 40-70 other queries on a \
                lock table of capacity 1-2; all schedules with <= d deviations; \
                a witness counter detects two holders"
        .into();
    rep.assumptions = vec![
        "maintenance runs piggy-backed (the mode every user in the repository \
         uses); the dedicated-thread mode is not enumerated"
            .into(),
    ];
    let threads = crate::report::threads();
    let mut per = Vec::new();
    for (ci, c) in confs(thorough).iter().enumerate() {
        let alpha = Arc::new(alphabet(c.keys));
        let n = alpha.len();
        let mut items = Vec::new();
        for a in 0..n {
            for b in 0..n {
                items.push(vec![a, b]);
            }
        }
        // length-1 sequences
        for a in 0..n {
            let o = xplore::run_default({
                let (c, seq) = (*c, vec![alpha[a]]);
                move || {
                    let o = run_seq(c, &seq);
                    (o.enabled, o.violation)
                }
            });
            rep.evaluations += 1;
            if let Ok((_, Some(v))) = o {
                rep.violation(Violation {
                    what: format!("{:?}: {v} after {:?}", c, [alpha[a].short()]),
                    tags: vec![],
                    replay: json!({"check": "c16h", "thorough": thorough,
                        "conf_index": ci, "sequence": [a]}),
                });
            }
        }
        let queue = Arc::new(Mutex::new(items));
        let tot = Arc::new(Mutex::new(Tot::default()));
        std::thread::scope(|sc| {
            for _ in 0..threads {
                let (queue, tot, alpha, c) = (queue.clone(), tot.clone(), alpha.clone(), *c);
                std::thread::Builder::new()
                    .stack_size(16 << 20)
                    .spawn_scoped(sc, move || {
                        loop {
                            let item = queue.lock().unwrap().pop();
                            let Some(prefix) = item else { break };
                            run_subtree(c, &alpha, prefix, &tot);
                        }
                    })
                    .unwrap();
            }
        });
        let t = tot.lock().unwrap();
        rep.evaluations += t.runs;
        rep.distinct_nontrivial += t.nontrivial;
        per.push(json!({"conf": conf_json(c), "sequences": t.runs,
            "sequences_all_ops_enabled": t.nontrivial,
            "max_resident_observed": t.max_resident,
            "resident_bound_without_pins": policy_capacity(c.cap) + 33,
            "violations": t.viol.len()}));
        for (seq, msg) in t.viol.iter().take(30) {
            let ops: Vec<String> = seq.iter().map(|i| alpha[*i].short()).collect();
            rep.violation(Violation {
                what: format!("{:?}: {msg} after {ops:?}", c),
                tags: tags_h(msg),
                replay: json!({"check": "c16h", "thorough": thorough,
                    "conf_index": ci, "sequence": seq}),
            });
        }
        for e in &t.errs {
            rep.machinery_errors.push(e.clone());
        }
    }
    rep.extra.insert("h_configurations".into(), json!(per));
    rep.sample(json!({"conf": {"capacity": 1, "unpin_strategy": "Notify"},
        "sequence": ["put(k0)", "pin(k0)", "burst", "unpin(k0)", "get(k0)"]}));

    let mut sout = Vec::new();
    for (idx, (p, d)) in s_params(thorough).iter().enumerate() {
        let Some(o) = crate::report::explore_isolated(
            &mut rep, "c16s", idx, "lock-table", thorough,
        ) else {
            continue;
        };
        rep.evaluations += o.executions;
        rep.distinct_nontrivial += o.sigs;
        sout.push(json!({"scenario": format!("{p:?}"), "bound": d,
            "schedules": o.executions, "max_depth": o.max_depth,
            "failures": o.failures.len()}));
        if let Some(c) = &o.cap_hit {
            rep.cap(c.clone());
        }
        if let Some(m) = o.machinery_error {
            rep.machinery_errors.push(m);
        }
        for f in &o.failures {
            rep.violation(Violation {
                what: format!("S lock table {p:?} {:?}: {}", f.kind, f.msg),
                tags: vec![format!("{:?}", f.kind)],
                replay: json!({"check": "c16s", "thorough": thorough,
                    "scenario_index": idx, "schedule": sched_json(&f.schedule)}),
            });
        }
    }
    rep.extra.insert("s_scenarios".into(), json!(sout));
    rep.finish()
}

fn tags_h(msg: &str) -> Vec<String> {
    let mut t = Vec::new();
    if msg.contains("called `Option::unwrap()` on a `None` value")
        && msg.contains("policy.rs")
    {
        t.push("policy-unpin-unwrap-on-empty-probation".to_string());
    }
    t
}

pub fn replay(v: &Value) -> i32 {
    let thorough = v["thorough"].as_bool().unwrap_or(false);
    if v["check"] == "c16s" {
        let (p, _) = s_params(thorough)[v["scenario_index"].as_u64().unwrap() as usize].clone();
        let s = sched_from_json(&v["schedule"]);
        let o1 = xplore::replay(&s, s_scenario(p.clone()));
        let o2 = xplore::replay(&s, s_scenario(p));
        let m1: Vec<_> = o1.failures.iter().map(|f| f.msg.clone()).collect();
        let m2: Vec<_> = o2.failures.iter().map(|f| f.msg.clone()).collect();
        if m1 != m2 {
            eprintln!("replay is not deterministic");
            return 2;
        }
        for m in &m1 {
            println!("replayed failure: {m}");
        }
        return if m1.is_empty() { 0 } else { 1 };
    }
    let c = confs(thorough)[v["conf_index"].as_u64().unwrap() as usize];
    let a = alphabet(c.keys);
    let seq: Vec<Op> = v["sequence"]
        .as_array()
        .unwrap()
        .iter()
        .map(|i| a[i.as_u64().unwrap() as usize])
        .collect();
    println!("{c:?}: {:?}", seq.iter().map(Op::short).collect::<Vec<_>>());
    match xplore::run_default(move || run_seq(c, &seq).violation) {
        Ok(Some(m)) => {
            println!("replayed failure: {m}");
            1
        }
        Ok(None) => 0,
        Err(e) => {
            println!("replayed failure: {:?} {}", e.kind, e.msg);
            1
        }
    }
}
