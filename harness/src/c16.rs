//! C16 — the admission cache never evicts pinned entries and stays bounded.
//!
//! H: every sequence of macro-operations up to a depth over 2-3 named keys on
//! the real `TinyLFU` (capacities 1, 2, 3, 8; both unpin strategies), with the
//! pin state held in the value so that the lifecycle listener reads it.
//! S: the per-query lock table (tiny capacity) under schedule exploration.

use std::sync::{
    Arc, Mutex,
    atomic::{AtomicBool, AtomicUsize, Ordering},
};

use qbice::{
    engine::verif_api::LockTable,
    query::QueryID,
    storage::tiny_lfu::{
        Entry, LifecycleListener, MaintenanceMode, TinyLFU, UnpinStrategy,
    },
};
use serde_json::{Value, json};

use crate::{
    report::{Report, Violation, sched_from_json, sched_json},
    xplore,
};

#[derive(Debug, Clone)]
pub struct V {
    val: u64,
    pinned: Arc<AtomicBool>,
}

#[derive(Debug, Default)]
pub struct PinListener;

impl LifecycleListener<u16, V> for PinListener {
    fn is_pinned(&self, _key: &u16, value: &V) -> bool {
        value.pinned.load(Ordering::SeqCst)
    }
}

#[derive(Clone, Copy, Debug, PartialEq, Eq)]
pub enum Op {
    Put(u16),
    Get(u16),
    Remove(u16),
    Pin(u16),
    Unpin(u16),
    Burst,
}

impl Op {
    fn short(&self) -> String {
        match self {
            Op::Put(k) => format!("put(k{k})"),
            Op::Get(k) => format!("get(k{k})"),
            Op::Remove(k) => format!("remove(k{k})"),
            Op::Pin(k) => format!("pin(k{k})"),
            Op::Unpin(k) => format!("unpin(k{k})"),
            Op::Burst => "burst".into(),
        }
    }
}

pub fn alphabet(keys: u16) -> Vec<Op> {
    let mut v = Vec::new();
    for k in 0..keys {
        v.extend([Op::Put(k), Op::Get(k), Op::Remove(k), Op::Pin(k), Op::Unpin(k)]);
    }
    v.push(Op::Burst);
    v
}

#[derive(Clone, Copy, Debug)]
pub struct Conf {
    pub cap: usize,
    pub notify: bool,
    pub keys: u16,
    pub depth: usize,
}

#[derive(Clone, Debug)]
struct RefEntry {
    val: u64,
    pinned: bool,
    flag: Arc<AtomicBool>,
}

pub struct Out {
    pub enabled: bool,
    pub violation: Option<String>,
    pub max_resident: usize,
    pub bound: usize,
}

/// the policy's own capacity for a configured capacity (mirrors Policy::new)
fn policy_capacity(cap: usize) -> usize {
    let window = (cap as f64 * 0.01).ceil() as usize;
    let main = cap - window;
    let protected = (main as f64 * 0.8).ceil() as usize;
    let probation = (main - protected).max(1);
    window + protected + probation
}

pub fn run_seq(c: Conf, seq: &[Op]) -> Out {
    let cache: TinyLFU<u16, V, PinListener> = TinyLFU::new(
        c.cap,
        if c.notify { UnpinStrategy::Notify } else { UnpinStrategy::Poll },
        MaintenanceMode::Piggyback,
    );
    let mut model: std::collections::BTreeMap<u16, RefEntry> = Default::default();
    let mut ctr = 0u64;
    let mut next_burst = 1000u16;
    let mut universe: Vec<u16> = (0..c.keys).collect();
    let mut enabled = true;
    let mut violation: Option<String> = None;
    let mut max_resident = 0usize;
    let bound = policy_capacity(c.cap) + 33;

    let put = |cache: &TinyLFU<u16, V, PinListener>, k: u16, val: u64, flag: Arc<AtomicBool>| {
        cache.entry(k, |e| match e {
            Entry::Vacant(v) => v.insert(V { val, pinned: flag }),
            Entry::Occupied(mut o) => {
                let p = o.get().pinned.clone();
                // an update keeps the pin flag of the resident entry
                p.store(flag.load(Ordering::SeqCst) || p.load(Ordering::SeqCst), Ordering::SeqCst);
                *o.get_mut() = V { val, pinned: p };
            }
        });
    };

    for op in seq {
        enabled = true;
        match *op {
            Op::Put(k) => {
                ctr += 1;
                let (flag, pinned) = match model.get(&k) {
                    Some(e) => (e.flag.clone(), e.pinned),
                    None => (Arc::new(AtomicBool::new(false)), false),
                };
                put(&cache, k, ctr, flag.clone());
                // the resident entry may carry its own (older) flag object
                let resident_flag =
                    cache.get_map(&k, |v| v.pinned.clone()).unwrap_or(flag);
                model.insert(k, RefEntry { val: ctr, pinned, flag: resident_flag });
            }
            Op::Get(k) => {
                let got = cache.get_map(&k, |v| v.val);
                match (model.get(&k), got) {
                    (Some(e), Some(v)) if v != e.val => {
                        violation = Some(format!(
                            "get(k{k}) = {v}, latest value is {}",
                            e.val
                        ));
                    }
                    (Some(e), None) if e.pinned => {
                        violation = Some(format!(
                            "get(k{k}) = None although the entry is pinned"
                        ));
                    }
                    (Some(_), None) => {
                        model.remove(&k);
                    }
                    (None, Some(v)) => {
                        violation = Some(format!(
                            "get(k{k}) = {v} although the key was removed / \
                             never inserted"
                        ));
                    }
                    _ => {}
                }
            }
            Op::Remove(k) => {
                if model.remove(&k).is_none() {
                    enabled = false;
                } else {
                    let existed = cache.entry(k, |e| match e {
                        Entry::Occupied(o) => {
                            let _ = o.remove();
                            true
                        }
                        Entry::Vacant(_) => false,
                    });
                    let _ = existed;
                }
            }
            Op::Pin(k) => match model.get_mut(&k) {
                Some(e) if !e.pinned => {
                    // only a resident entry can be pinned by its owner
                    if cache.get_map(&k, |_| ()).is_some() {
                        e.flag.store(true, Ordering::SeqCst);
                        e.pinned = true;
                    } else {
                        model.remove(&k);
                        enabled = false;
                    }
                }
                _ => enabled = false,
            },
            Op::Unpin(k) => match model.get_mut(&k) {
                Some(e) if e.pinned => {
                    e.flag.store(false, Ordering::SeqCst);
                    e.pinned = false;
                    if c.notify {
                        cache.unpin(k);
                    }
                }
                _ => enabled = false,
            },
            Op::Burst => {
                for _ in 0..34 {
                    let k = next_burst;
                    next_burst += 1;
                    universe.push(k);
                    put(&cache, k, 0, Arc::new(AtomicBool::new(false)));
                }
            }
        }
        if violation.is_some() || !enabled {
            break;
        }
    }

    if violation.is_none() && enabled {
        // final probe of every named key + resident count over the universe
        for k in 0..c.keys {
            let got = cache.get_map(&k, |v| v.val);
            match (model.get(&k), got) {
                (Some(e), Some(v)) if v != e.val => {
                    violation = Some(format!(
                        "final: k{k} = {v}, latest value is {}",
                        e.val
                    ));
                }
                (Some(e), None) if e.pinned => {
                    violation = Some(format!(
                        "final: pinned k{k} is not resident (evicted)"
                    ));
                }
                (None, Some(v)) => {
                    violation = Some(format!(
                        "final: removed k{k} is resident with {v}"
                    ));
                }
                _ => {}
            }
        }
        let resident = universe
            .iter()
            .filter(|k| cache.get_map(k, |_| ()).is_some())
            .count();
        let pinned = model.values().filter(|e| e.pinned).count();
        max_resident = resident;
        if resident > bound + pinned {
            violation = Some(format!(
                "{resident} resident entries > policy capacity + maintenance \
                 slack ({bound}) + pinned ({pinned})"
            ));
        }
    }
    drop(cache);
    Out { enabled, violation, max_resident, bound }
}

pub fn confs(thorough: bool) -> Vec<Conf> {
    let mut v = Vec::new();
    if thorough {
        for cap in [1, 2, 3, 8] {
            for notify in [true, false] {
                v.push(Conf { cap, notify, keys: 2, depth: 7 });
            }
        }
        v.push(Conf { cap: 1, notify: true, keys: 3, depth: 6 });
        v.push(Conf { cap: 2, notify: false, keys: 3, depth: 6 });
    } else {
        for (cap, notify) in [(1, true), (1, false), (2, true), (3, false), (8, true)] {
            v.push(Conf { cap, notify, keys: 2, depth: 6 });
        }
    }
    v
}

#[derive(Default)]
struct Tot {
    runs: u64,
    nontrivial: u64,
    max_resident: usize,
    viol: Vec<(Vec<usize>, String)>,
    errs: Vec<String>,
}

fn run_subtree(c: Conf, alpha: &Arc<Vec<Op>>, prefix: Vec<usize>, tot: &Arc<Mutex<Tot>>) {
    let n = alpha.len();
    let root = prefix.len();
    let cur = Arc::new(Mutex::new((prefix, false)));
    let current: Arc<Mutex<Option<Vec<usize>>>> = Arc::new(Mutex::new(None));
    let advance = move |st: &mut (Vec<usize>, bool), descend: bool| {
        if descend && st.0.len() < c.depth {
            st.0.push(0);
            return;
        }
        loop {
            if st.0.len() <= root {
                st.1 = true;
                return;
            }
            let l = st.0.last_mut().unwrap();
            *l += 1;
            if *l < n {
                return;
            }
            st.0.pop();
        }
    };
    let (cur2, tot2, alpha2, current2) = (cur.clone(), tot.clone(), alpha.clone(), current.clone());
    let adv2 = advance.clone();
    let body = Arc::new(move || -> bool {
        let seq_idx = {
            let st = cur2.lock().unwrap();
            if st.1 {
                return false;
            }
            st.0.clone()
        };
        *current2.lock().unwrap() = Some(seq_idx.clone());
        let seq: Vec<Op> = seq_idx.iter().map(|i| alpha2[*i]).collect();
        let out = run_seq(c, &seq);
        current2.lock().unwrap().take();
        let mut t = tot2.lock().unwrap();
        t.runs += 1;
        if out.enabled {
            t.nontrivial += 1;
        }
        t.max_resident = t.max_resident.max(out.max_resident);
        if let Some(v) = &out.violation {
            if t.viol.len() < 200 {
                t.viol.push((seq_idx.clone(), v.clone()));
            }
        }
        drop(t);
        let mut st = cur2.lock().unwrap();
        adv2(&mut st, out.enabled && out.violation.is_none());
        !st.1
    });
    let (cur3, tot3, current3) = (cur.clone(), tot.clone(), current.clone());
    let on_failure = Arc::new(move |f: &xplore::Failure| -> bool {
        let seq = current3.lock().unwrap().take();
        let mut t = tot3.lock().unwrap();
        t.runs += 1;
        if let Some(seq) = seq {
            if t.viol.len() < 200 {
                t.viol.push((seq, format!("{:?}: {}", f.kind, f.msg)));
            }
        }
        drop(t);
        let mut st = cur3.lock().unwrap();
        advance(&mut st, false);
        !st.1
    });
    let o = xplore::repeat(body, on_failure);
    if let Some(m) = o.machinery_error {
        tot.lock().unwrap().errs.push(m);
    }
}

fn conf_json(c: &Conf) -> Value {
    json!({"capacity": c.cap, "unpin_strategy": if c.notify { "Notify" } else { "Poll" },
           "named_keys": c.keys, "depth": c.depth})
}

// ---------------------------------------------------------------------------
// S: lock table
// ---------------------------------------------------------------------------

fn qid(n: u8) -> QueryID {
    // distinct ids; the content does not matter for the lock table
    let h = qbice::stable_hash::Compact128::from(n as u128 + 1);
    QueryID::from_parts(h, h)
}

#[derive(Clone, Debug)]
pub struct SP {
    pub cap: u64,
    pub others: u8,
}

/// Two tasks take the exclusive lock of the SAME query (each twice) while a
/// third touches many other queries so that the table (capacity 1-2) keeps
/// evicting; a witness counter detects two holders at once.
pub fn s_scenario(p: SP) -> Arc<dyn Fn() + Send + Sync> {
    Arc::new(move || {
        let p = p.clone();
        shuttle::future::block_on(async move {
            xplore::exploring(false);
            let table = Arc::new(LockTable::new(p.cap));
            // warm: fill the table beyond capacity
            for i in 10..(10 + 40u8) {
                let _ = table.shared(&qid(i)).await;
            }
            xplore::exploring(true);
            let inside = Arc::new(AtomicUsize::new(0));
            let mut hs = Vec::new();
            for t in 0..2 {
                let (table, inside) = (table.clone(), inside.clone());
                hs.push(shuttle::future::spawn(async move {
                    for _ in 0..2 {
                        let g = table.exclusive(&qid(1)).await;
                        let n = inside.fetch_add(1, Ordering::SeqCst);
                        if n != 0 {
                            xplore::report_violation(format!(
                                "task {t} entered the exclusive section of \
                                 query 1 while another holder was inside (two \
                                 lock instances for one query)"
                            ));
                        }
                        // stay inside across scheduling points
                        qbice_verif_rt::tokio::task::yield_now().await;
                        qbice_verif_rt::tokio::task::yield_now().await;
                        inside.fetch_sub(1, Ordering::SeqCst);
                        drop(g);
                    }
                }));
            }
            {
                let table = table.clone();
                let others = p.others;
                hs.push(shuttle::future::spawn(async move {
                    for i in 0..others {
                        let g = table.shared(&qid(100 + i)).await;
                        drop(g);
                    }
                }));
            }
            for h in hs {
                let _ = h.await;
            }
            xplore::exploring(false);
            xplore::observe("done");
        });
    })
}

pub fn s_params(thorough: bool) -> Vec<(SP, usize)> {
    if thorough {
        vec![
            (SP { cap: 1, others: 40 }, 3),
            (SP { cap: 2, others: 40 }, 3),
            (SP { cap: 1, others: 70 }, 2),
        ]
    } else {
        vec![(SP { cap: 1, others: 40 }, 2), (SP { cap: 2, others: 40 }, 2)]
    }
}

pub fn child_s(idx: usize) {
    let thorough = crate::report::tier() == "thorough";
    let (p, d) = s_params(thorough)[idx].clone();
    let mut cfg = xplore::Cfg::new(d);
    cfg.max_failures = 50;
    let o = xplore::explore_parallel(&cfg, crate::report::threads(), s_scenario(p));
    crate::report::emit_child_result(&o.to_json());
}


// ---------------------------------------------------------------------------
// M: the cache itself used from two threads
// ---------------------------------------------------------------------------

#[derive(Clone, Debug)]
pub struct MP {
    pub cap: usize,
    pub notify: bool,
    /// the second thread also reads / updates the owner's key
    pub touch: bool,
    /// the pin is a handle taken by `get` (what the lock table does): the
    /// entry is pinned while anybody outside the cache holds a clone of it
    pub handle: bool,
}

#[derive(Debug, Default)]
pub struct HandleListener;

impl LifecycleListener<u16, Arc<u64>> for HandleListener {
    fn is_pinned(&self, key: &u16, value: &Arc<u64>) -> bool {
        if *key == 0 && std::env::var_os("VH_C16_DEBUG").is_some() {
            eprintln!("is_pinned(k0) asked: strong_count {}", Arc::strong_count(value));
        }
        Arc::strong_count(value) > 1
    }
}

/// Key 0 is resident and unpinned (nobody holds a handle). Thread A pins it
/// the way the lock table does - `get` clones the handle under the bucket's
/// shared lock - and, while it holds the handle, reads it twice more (plain
/// read and exclusive entry): each must find the very same handle. Thread B
/// inserts 36 fresh keys, so a maintenance pass picks key 0 as a victim at
/// some point. A's `get` may miss (evicted first), but once A holds a handle
/// the entry is pinned and has to stay.
fn m_handle_scenario(p: MP) -> Arc<dyn Fn() + Send + Sync> {
    Arc::new(move || {
        xplore::exploring(false);
        let cache: Arc<TinyLFU<u16, Arc<u64>, HandleListener>> = Arc::new(TinyLFU::new(
            p.cap,
            if p.notify { UnpinStrategy::Notify } else { UnpinStrategy::Poll },
            MaintenanceMode::Piggyback,
        ));
        for k in (500..520u16).chain([0]) {
            cache.entry(k, |e| {
                if let Entry::Vacant(v) = e {
                    v.insert(Arc::new(u64::from(k)));
                }
            });
        }
        xplore::exploring(true);
        // the evictor is spawned first: by default it runs to its end before
        // the owner starts, so "owner pins inside the eviction window and is
        // then overtaken" costs two deviations
        let b = {
            let cache = cache.clone();
            shuttle::thread::spawn(move || {
                for i in 0..36u16 {
                    cache.entry(1000 + i, |e| {
                        if let Entry::Vacant(v) = e {
                            v.insert(Arc::new(0));
                        }
                    });
                }
            })
        };
        let a = {
            let cache = cache.clone();
            shuttle::thread::spawn(move || {
                let mut got = 0;
                for round in 0..2 {
                    let Some(h) = cache.get(&0) else { continue };
                    got += 1;
                    match cache.get_map(&0, |v| Arc::ptr_eq(v, &h)) {
                        Some(true) => {}
                        other => xplore::report_violation(format!(
                            "round {round}: the owner holds a handle of k0 (pinned) and get(k0) finds {}",
                            if other.is_none() { "nothing: the pinned entry was evicted" } else { "another entry" }
                        )),
                    }
                    let same = cache.entry(0, |e| match e {
                        Entry::Occupied(o) => Some(Arc::ptr_eq(o.get(), &h)),
                        Entry::Vacant(_) => None,
                    });
                    if same != Some(true) {
                        xplore::report_violation(format!(
                            "round {round}: the owner holds a handle of k0 (pinned) and entry(k0) is {}",
                            if same.is_none() { "vacant: the pinned entry was evicted" } else { "another entry" }
                        ));
                    }
                    drop(h);
                    if p.notify {
                        cache.unpin(0);
                    }
                }
                got
            })
        };
        let got = a.join().unwrap_or(9);
        let _ = b.join();
        xplore::exploring(false);
        let resident = (0..1u16)
            .chain(500..520)
            .chain(1000..1036)
            .filter(|k| cache.get_map(k, |_| ()).is_some())
            .count();
        let bound = policy_capacity(p.cap) + 33;
        if resident > bound {
            xplore::report_violation(format!(
                "{resident} resident entries > policy capacity + maintenance slack ({bound}) with nothing pinned"
            ));
        }
        if std::env::var_os("VH_C16_DEBUG").is_some() {
            eprintln!("pinned {got} time(s), {resident} resident");
        }
        xplore::observe(format!("pinned {got} time(s), {resident} resident"));
    })
}

/// Thread A owns key 0: insert pinned, read, update, read, unpin, read.
/// Thread B inserts 34+ fresh keys (forces maintenance passes and evictions)
/// and reads key 0 in between. While A reports the key as pinned every read
/// must find it, with a value A has written and never an older one than the
/// last completed write; at the end the resident count is within the bound.
pub fn m_scenario(p: MP) -> Arc<dyn Fn() + Send + Sync> {
    if p.handle {
        return m_handle_scenario(p);
    }
    Arc::new(move || {
        let p = p.clone();
        xplore::exploring(false);
        let cache: Arc<TinyLFU<u16, V, PinListener>> = Arc::new(TinyLFU::new(
            p.cap,
            if p.notify { UnpinStrategy::Notify } else { UnpinStrategy::Poll },
            MaintenanceMode::Piggyback,
        ));
        // warm up: the cache is full of unpinned strangers
        for k in 500..540u16 {
            cache.entry(k, |e| {
                if let Entry::Vacant(v) = e {
                    v.insert(V { val: 0, pinned: Arc::new(AtomicBool::new(false)) });
                }
            });
        }
        // phase: 0 nothing written, 1 v=1 written (pinned), 2 v=2 written
        // (pinned), 3 unpinned
        let phase = Arc::new(AtomicUsize::new(0));
        let flag = Arc::new(AtomicBool::new(true));
        xplore::exploring(true);
        let a = {
            let (cache, phase, flag) = (cache.clone(), phase.clone(), flag.clone());
            shuttle::thread::spawn(move || {
                let read = |what: &str, want: u64| {
                    match cache.get_map(&0, |v| v.val) {
                        Some(v) if v == want => {}
                        other => xplore::report_violation(format!(
                            "owner: {what}: get(k0) = {other:?}, the entry is pinned and its latest value is {want}"
                        )),
                    }
                };
                cache.entry(0, |e| match e {
                    Entry::Vacant(v) => v.insert(V { val: 1, pinned: flag.clone() }),
                    Entry::Occupied(mut o) => *o.get_mut() = V { val: 1, pinned: flag.clone() },
                });
                phase.store(1, Ordering::SeqCst);
                read("after the insert", 1);
                cache.entry(0, |e| match e {
                    Entry::Vacant(v) => {
                        xplore::report_violation("owner: update found the pinned entry evicted".to_string());
                        v.insert(V { val: 2, pinned: flag.clone() });
                    }
                    Entry::Occupied(mut o) => *o.get_mut() = V { val: 2, pinned: flag.clone() },
                });
                phase.store(2, Ordering::SeqCst);
                read("after the update", 2);
                phase.store(3, Ordering::SeqCst);
                flag.store(false, Ordering::SeqCst);
                if p.notify {
                    cache.unpin(0);
                }
                match cache.get_map(&0, |v| v.val) {
                    None | Some(2) => {}
                    other => xplore::report_violation(format!(
                        "owner: after unpin: get(k0) = {other:?}, latest value is 2"
                    )),
                }
            })
        };
        let b = {
            let (cache, phase) = (cache.clone(), phase.clone());
            shuttle::thread::spawn(move || {
                for i in 0..36u16 {
                    cache.entry(1000 + i, |e| {
                        if let Entry::Vacant(v) = e {
                            v.insert(V { val: 0, pinned: Arc::new(AtomicBool::new(false)) });
                        }
                    });
                    if p.touch && i % 12 == 5 {
                        let before = phase.load(Ordering::SeqCst);
                        let got = cache.get_map(&0, |v| v.val);
                        let after = phase.load(Ordering::SeqCst);
                        let ok = match got {
                            // absent only before the first write completed or after the unpin began
                            None => before == 0 || after == 3,
                            Some(v) => {
                                let min = match before { 0 | 1 => 1, _ => 2 };
                                let max = match after { 0 => 1, 1 => 2, _ => 2 };
                                // a write that is in progress may already be visible
                                v >= min.min(max) && v <= 2 && !(before >= 2 && v < 2)
                            }
                        };
                        if !ok {
                            xplore::report_violation(format!(
                                "reader: get(k0) = {got:?} while the owner was in phase {before}..{after} \
                                 (1 = value 1 pinned, 2 = value 2 pinned, 3 = unpinned)"
                            ));
                        }
                    }
                }
            })
        };
        let _ = a.join();
        let _ = b.join();
        xplore::exploring(false);
        // bound on resident entries
        let resident = (0..1u16)
            .chain(500..540)
            .chain(1000..1036)
            .filter(|k| cache.get_map(k, |_| ()).is_some())
            .count();
        let bound = policy_capacity(p.cap) + 33;
        if resident > bound {
            xplore::report_violation(format!(
                "{resident} resident entries > policy capacity + maintenance slack ({bound}) with nothing pinned"
            ));
        }
        xplore::observe(format!("{resident}"));
    })
}

pub fn m_params(thorough: bool) -> Vec<(MP, usize)> {
    let mut v = vec![
        (MP { cap: 1, notify: true, touch: true, handle: false }, 2),
        (MP { cap: 2, notify: false, touch: true, handle: false }, 2),
        (MP { cap: 1, notify: true, touch: false, handle: true }, 2),
        (MP { cap: 2, notify: false, touch: false, handle: true }, 2),
    ];
    if thorough {
        v.push((MP { cap: 1, notify: false, touch: true, handle: false }, 3));
        v.push((MP { cap: 3, notify: true, touch: true, handle: false }, 3));
        v.push((MP { cap: 8, notify: true, touch: false, handle: false }, 3));
        v.push((MP { cap: 1, notify: false, touch: false, handle: true }, 3));
        v.push((MP { cap: 3, notify: true, touch: false, handle: true }, 3));
    }
    v
}

pub fn child_m(idx: usize) {
    let thorough = crate::report::tier() == "thorough";
    let (p, d) = m_params(thorough)[idx].clone();
    let mut cfg = xplore::Cfg::new(d);
    cfg.max_failures = 50;
    let o = xplore::explore_parallel(&cfg, crate::report::threads(), m_scenario(p));
    crate::report::emit_child_result(&o.to_json());
}


// ---------------------------------------------------------------------------
// R: every per-key micro-history, replicated over many keys (leaks add up)
// ---------------------------------------------------------------------------

#[derive(Clone, Copy, Debug, PartialEq, Eq)]
pub enum Mop {
    Put,
    Get,
    PinOn,
    /// owner reports "not pinned" again (+ notification for Notify)
    PinOff,
    /// only the notification, whatever the owner reports
    Notify,
    Remove,
    /// 34 fresh unpinned keys
    Burst,
}

pub const MOPS: [Mop; 7] = [Mop::Put, Mop::Get, Mop::PinOn, Mop::PinOff, Mop::Notify, Mop::Remove, Mop::Burst];

/// Runs `shape` once per key for `keys` distinct keys (key sets much larger
/// than the capacity), step by step across all keys ("breadth first": step i
/// of every key before step i+1 of any), then releases every pin, lets the
/// cache churn, and checks the bound on resident entries.
pub fn run_replicated(cap: usize, notify: bool, shape: &[Mop], keys: u16) -> Option<String> {
    let cache: TinyLFU<u16, V, PinListener> = TinyLFU::new(
        cap,
        if notify { UnpinStrategy::Notify } else { UnpinStrategy::Poll },
        MaintenanceMode::Piggyback,
    );
    let mut flags: Vec<Arc<AtomicBool>> = (0..keys).map(|_| Arc::new(AtomicBool::new(false))).collect();
    let mut vals: Vec<Option<u64>> = vec![None; keys as usize];
    let mut ctr = 0u64;
    let mut fresh = 10_000u16;
    let mut all_keys: Vec<u16> = (0..keys).collect();
    for op in shape {
        if *op == Mop::Burst {
            for _ in 0..34 {
                cache.entry(fresh, |e| {
                    if let Entry::Vacant(v) = e {
                        v.insert(V { val: 0, pinned: Arc::new(AtomicBool::new(false)) });
                    }
                });
                all_keys.push(fresh);
                fresh += 1;
            }
            continue;
        }
        for k in 0..keys {
            let i = k as usize;
            match op {
                Mop::Put => {
                    ctr += 1;
                    let flag = flags[i].clone();
                    let val = ctr;
                    let resident = cache.entry(k, |e| match e {
                        Entry::Vacant(v) => {
                            v.insert(V { val, pinned: flag.clone() });
                            flag.clone()
                        }
                        Entry::Occupied(mut o) => {
                            let p = o.get().pinned.clone();
                            *o.get_mut() = V { val, pinned: p.clone() };
                            p
                        }
                    });
                    flags[i] = resident;
                    vals[i] = Some(ctr);
                }
                Mop::Get => {
                    let got = cache.get_map(&k, |v| v.val);
                    let pinned = flags[i].load(Ordering::SeqCst);
                    match (vals[i], got) {
                        (Some(w), Some(g)) if w != g => {
                            return Some(format!("get(k{k}) = {g}, latest value is {w}"));
                        }
                        (Some(_), None) if pinned => {
                            return Some(format!("get(k{k}) = None although the entry is pinned"));
                        }
                        (Some(_), None) => vals[i] = None,
                        (None, Some(g)) => {
                            return Some(format!("get(k{k}) = {g} although the key is not in the cache"));
                        }
                        _ => {}
                    }
                }
                Mop::PinOn => {
                    // only a resident entry can be pinned by its owner
                    if cache.get_map(&k, |_| ()).is_some() {
                        flags[i].store(true, Ordering::SeqCst);
                    } else {
                        vals[i] = None;
                    }
                }
                Mop::PinOff => {
                    flags[i].store(false, Ordering::SeqCst);
                    if notify {
                        cache.unpin(k);
                    }
                }
                Mop::Notify => {
                    if notify {
                        cache.unpin(k);
                    }
                }
                Mop::Remove => {
                    cache.entry(k, |e| {
                        if let Entry::Occupied(o) = e {
                            let _ = o.remove();
                        }
                    });
                    flags[i].store(false, Ordering::SeqCst);
                    flags[i] = Arc::new(AtomicBool::new(false));
                    vals[i] = None;
                }
                Mop::Burst => unreachable!(),
            }
        }
    }
    // pinned entries are resident with their latest value
    for k in 0..keys {
        let i = k as usize;
        if flags[i].load(Ordering::SeqCst) {
            if let Some(w) = vals[i] {
                match cache.get_map(&k, |v| v.val) {
                    Some(g) if g == w => {}
                    other => return Some(format!("pinned k{k} reads {other:?}, latest value is {w}")),
                }
            }
        }
    }
    // release every pin, churn, and count what is left
    for k in 0..keys {
        flags[k as usize].store(false, Ordering::SeqCst);
        if notify {
            cache.unpin(k);
        }
    }
    for _ in 0..3 * 34 {
        cache.entry(fresh, |e| {
            if let Entry::Vacant(v) = e {
                v.insert(V { val: 0, pinned: Arc::new(AtomicBool::new(false)) });
            }
        });
        all_keys.push(fresh);
        fresh += 1;
    }
    for _ in 0..40 {
        let _ = cache.get_map(&60_000, |_| ());
    }
    let resident = all_keys.iter().filter(|k| cache.get_map(k, |_| ()).is_some()).count();
    let bound = policy_capacity(cap) + 33;
    if resident > bound {
        return Some(format!(
            "{resident} resident entries after every pin was released and 102 fresh keys were inserted; \
             policy capacity + maintenance slack = {bound}"
        ));
    }
    None
}

/// all shapes up to `len`
pub fn shapes(len: usize) -> Vec<Vec<Mop>> {
    let mut out: Vec<Vec<Mop>> = vec![vec![]];
    let mut layer: Vec<Vec<Mop>> = vec![vec![]];
    for _ in 0..len {
        let mut next = Vec::new();
        for s in &layer {
            for m in MOPS {
                let mut t = s.clone();
                t.push(m);
                next.push(t);
            }
        }
        out.extend(next.iter().cloned());
        layer = next;
    }
    out
}

fn r_part(rep: &mut Report, thorough: bool) {
    let len = if thorough { 5 } else { 4 };
    let all = shapes(len);
    let confs: Vec<(usize, bool)> = if thorough {
        vec![(1, true), (1, false), (2, true), (8, true), (8, false), (100, true)]
    } else {
        vec![(1, true), (2, false), (8, true)]
    };
    let keys = 60u16;
    let jobs: Vec<(usize, bool, Vec<Mop>)> = confs
        .iter()
        .flat_map(|(c, n)| all.iter().map(move |s| (*c, *n, s.clone())))
        .collect();
    let total = jobs.len();
    let queue = Arc::new(Mutex::new(jobs));
    let bad: Arc<Mutex<Vec<(usize, bool, Vec<Mop>, String)>>> = Arc::new(Mutex::new(Vec::new()));
    // inside shuttle executions (the cache's locks are scheduler primitives
    // in this build); one execution per worker processes many runs
    let mut hs = Vec::new();
    for _ in 0..crate::report::threads() {
        let (queue, bad) = (queue.clone(), bad.clone());
        hs.push(std::thread::spawn(move || {
            loop {
                let batch: Vec<(usize, bool, Vec<Mop>)> = {
                    let mut q = queue.lock().unwrap();
                    let n = q.len().min(64);
                    let at = q.len() - n;
                    q.split_off(at)
                };
                if batch.is_empty() {
                    break;
                }
                let bad2 = bad.clone();
                let res = xplore::run_default(move || {
                    for (c, n, s) in batch {
                        let r = std::panic::catch_unwind(|| run_replicated(c, n, &s, keys)).unwrap_or_else(|p| {
                            let msg = p
                                .downcast_ref::<String>()
                                .cloned()
                                .or_else(|| p.downcast_ref::<&str>().map(|s| (*s).to_string()))
                                .unwrap_or_default();
                            Some(format!("panicked: {msg}"))
                        });
                        if let Some(m) = r {
                            let mut b = bad2.lock().unwrap();
                            if b.iter().filter(|x| x.3 == m).count() < 3 {
                                b.push((c, n, s, m));
                            }
                        }
                    }
                });
                if let Err(e) = res {
                    bad.lock().unwrap().push((0, false, vec![], format!("{:?}: {}", e.kind, e.msg)));
                }
            }
        }));
    }
    for h in hs {
        let _ = h.join();
    }
    rep.evaluations += total as u64;
    rep.distinct_nontrivial += total as u64;
    rep.extra.insert(
        "r_part".into(),
        json!({"shape_length": len, "shapes": all.len(), "keys_per_shape": keys,
               "configurations": confs.iter().map(|(c, n)| format!("cap {c} notify {n}")).collect::<Vec<_>>(),
               "runs": total}),
    );
    for (c, n, s, m) in bad.lock().unwrap().drain(..) {
        rep.violation(Violation {
            what: format!("R cap {c} notify {n} shape {s:?} x {keys} keys: {m}"),
            tags: vec![],
            replay: json!({"check": "c16r", "cap": c, "notify": n,
                "shape": s.iter().map(|m| MOPS.iter().position(|x| x == m).unwrap()).collect::<Vec<_>>()}),
        });
    }
}

pub fn check() -> i32 {
    let mut rep = Report::new("C16", "exploration");
    let thorough = rep.is_thorough();
    rep.rule = "H: every sequence up to the listed depth over {put (insert or \
                update), get, remove, pin, unpin (+ notification for the \
                Notify strategy), burst of 34 fresh keys} on 2-3 named keys \
                for capacities 1/2/3/8 and both unpin strategies on the real \
                TinyLFU (pin state held in the value, read by the lifecycle \
                listener); after every sequence each named key is probed: a \
                pinned key is resident with its latest value, an unpinned key \
                has its latest value or is absent, a removed key is absent, \
                and resident entries <= policy capacity + pinned + maintenance \
                slack (33). A sequence is non-trivial if all its ops were \
                enabled. S: two tasks contend for one query's exclusive lock \
                (twice each) while a third touches 40-70 other queries on a \
                lock table of capacity 1-2; all schedules with <= d deviations; \
                a witness counter detects two holders"
        .into();
    rep.assumptions = vec![
        "maintenance runs piggy-backed (the mode every user in the repository \
         uses); the dedicated-thread mode is not enumerated"
            .into(),
    ];
    let threads = crate::report::threads();
    let mut per = Vec::new();
    for (ci, c) in confs(thorough).iter().enumerate() {
        let alpha = Arc::new(alphabet(c.keys));
        let n = alpha.len();
        let mut items = Vec::new();
        for a in 0..n {
            for b in 0..n {
                items.push(vec![a, b]);
            }
        }
        // length-1 sequences
        for a in 0..n {
            let o = xplore::run_default({
                let (c, seq) = (*c, vec![alpha[a]]);
                move || {
                    let o = run_seq(c, &seq);
                    (o.enabled, o.violation)
                }
            });
            rep.evaluations += 1;
            if let Ok((_, Some(v))) = o {
                rep.violation(Violation {
                    what: format!("{:?}: {v} after {:?}", c, [alpha[a].short()]),
                    tags: vec![],
                    replay: json!({"check": "c16h", "thorough": thorough,
                        "conf_index": ci, "sequence": [a]}),
                });
            }
        }
        let queue = Arc::new(Mutex::new(items));
        let tot = Arc::new(Mutex::new(Tot::default()));
        std::thread::scope(|sc| {
            for _ in 0..threads {
                let (queue, tot, alpha, c) = (queue.clone(), tot.clone(), alpha.clone(), *c);
                std::thread::Builder::new()
                    .stack_size(16 << 20)
                    .spawn_scoped(sc, move || {
                        loop {
                            let item = queue.lock().unwrap().pop();
                            let Some(prefix) = item else { break };
                            run_subtree(c, &alpha, prefix, &tot);
                        }
                    })
                    .unwrap();
            }
        });
        let t = tot.lock().unwrap();
        rep.evaluations += t.runs;
        rep.distinct_nontrivial += t.nontrivial;
        per.push(json!({"conf": conf_json(c), "sequences": t.runs,
            "sequences_all_ops_enabled": t.nontrivial,
            "max_resident_observed": t.max_resident,
            "resident_bound_without_pins": policy_capacity(c.cap) + 33,
            "violations": t.viol.len()}));
        for (seq, msg) in t.viol.iter().take(30) {
            let ops: Vec<String> = seq.iter().map(|i| alpha[*i].short()).collect();
            rep.violation(Violation {
                what: format!("{:?}: {msg} after {ops:?}", c),
                tags: tags_h(msg),
                replay: json!({"check": "c16h", "thorough": thorough,
                    "conf_index": ci, "sequence": seq}),
            });
        }
        for e in &t.errs {
            rep.machinery_errors.push(e.clone());
        }
    }
    rep.extra.insert("h_configurations".into(), json!(per));
    rep.sample(json!({"conf": {"capacity": 1, "unpin_strategy": "Notify"},
        "sequence": ["put(k0)", "pin(k0)", "burst", "unpin(k0)", "get(k0)"]}));

    let mut sout = Vec::new();
    for (idx, (p, d)) in s_params(thorough).iter().enumerate() {
        let Some(o) = crate::report::explore_isolated(
            &mut rep, "c16s", idx, "lock-table", thorough,
        ) else {
            continue;
        };
        rep.evaluations += o.executions;
        rep.distinct_nontrivial += o.sigs;
        sout.push(json!({"scenario": format!("{p:?}"), "bound": d,
            "schedules": o.executions, "max_depth": o.max_depth,
            "failures": o.failures.len()}));
        if let Some(c) = &o.cap_hit {
            rep.cap(c.clone());
        }
        if let Some(m) = o.machinery_error {
            rep.machinery_errors.push(m);
        }
        for f in &o.failures {
            rep.violation(Violation {
                what: format!("S lock table {p:?} {:?}: {}", f.kind, f.msg),
                tags: vec![format!("{:?}", f.kind)],
                replay: json!({"check": "c16s", "thorough": thorough,
                    "scenario_index": idx, "schedule": sched_json(&f.schedule)}),
            });
        }
    }
    rep.extra.insert("s_scenarios".into(), json!(sout));
    let mut mout = Vec::new();
    for (idx, (p, d)) in m_params(thorough).iter().enumerate() {
        let Some(o) = crate::report::explore_isolated(&mut rep, "c16m", idx, "two-threads", thorough) else {
            continue;
        };
        rep.evaluations += o.executions;
        rep.distinct_nontrivial += o.sigs;
        mout.push(json!({"scenario": format!("{p:?}"), "bound": d, "schedules": o.executions,
            "max_depth": o.max_depth, "distinct_outcomes": o.outcomes, "failures": o.failures.len()}));
        if let Some(c) = &o.cap_hit {
            rep.cap(c.clone());
        }
        if let Some(m) = o.machinery_error {
            rep.machinery_errors.push(m);
        }
        for f in &o.failures {
            rep.violation(Violation {
                what: format!("M two threads {p:?} {:?}: {}", f.kind, f.msg),
                tags: vec![format!("{:?}", f.kind)],
                replay: json!({"check": "c16m", "thorough": thorough,
                    "scenario_index": idx, "schedule": sched_json(&f.schedule)}),
            });
        }
    }
    rep.extra.insert("m_scenarios".into(), json!(mout));
    r_part(&mut rep, thorough);
    rep.finish()
}

fn tags_h(msg: &str) -> Vec<String> {
    let mut t = Vec::new();
    if msg.contains("called `Option::unwrap()` on a `None` value")
        && msg.contains("policy.rs")
    {
        t.push("policy-unpin-unwrap-on-empty-probation".to_string());
    }
    t
}

pub fn replay(v: &Value) -> i32 {
    let thorough = v["thorough"].as_bool().unwrap_or(false);
    if v["check"] == "c16r" {
        let shape: Vec<Mop> =
            v["shape"].as_array().unwrap().iter().map(|i| MOPS[i.as_u64().unwrap() as usize]).collect();
        let (cap, notify) = (v["cap"].as_u64().unwrap() as usize, v["notify"].as_bool().unwrap());
        let r = match xplore::run_default(move || {
            std::panic::catch_unwind(|| run_replicated(cap, notify, &shape, 60)).unwrap_or_else(|p| {
                let msg = p
                    .downcast_ref::<String>()
                    .cloned()
                    .or_else(|| p.downcast_ref::<&str>().map(|s| (*s).to_string()))
                    .unwrap_or_default();
                Some(format!("panicked: {msg}"))
            })
        }) {
            Ok(r) => r,
            Err(e) => Some(format!("{:?}: {}", e.kind, e.msg)),
        };
        if let Some(m) = &r {
            println!("replayed failure: {m}");
        }
        return i32::from(r.is_some());
    }
    if v["check"] == "c16m" {
        let (p, _) = m_params(thorough)[v["scenario_index"].as_u64().unwrap() as usize].clone();
        let s = sched_from_json(&v["schedule"]);
        let o = xplore::replay(&s, m_scenario(p));
        for f in &o.failures {
            println!("replayed failure: {}", f.msg);
        }
        return i32::from(!o.failures.is_empty());
    }
    if v["check"] == "c16s" {
        let (p, _) = s_params(thorough)[v["scenario_index"].as_u64().unwrap() as usize].clone();
        let s = sched_from_json(&v["schedule"]);
        let o1 = xplore::replay(&s, s_scenario(p.clone()));
        let o2 = xplore::replay(&s, s_scenario(p));
        let m1: Vec<_> = o1.failures.iter().map(|f| f.msg.clone()).collect();
        let m2: Vec<_> = o2.failures.iter().map(|f| f.msg.clone()).collect();
        if m1 != m2 {
            eprintln!("replay is not deterministic");
            return 2;
        }
        for m in &m1 {
            println!("replayed failure: {m}");
        }
        return if m1.is_empty() { 0 } else { 1 };
    }
    let c = confs(thorough)[v["conf_index"].as_u64().unwrap() as usize];
    let a = alphabet(c.keys);
    let seq: Vec<Op> = v["sequence"]
        .as_array()
        .unwrap()
        .iter()
        .map(|i| a[i.as_u64().unwrap() as usize])
        .collect();
    println!("{c:?}: {:?}", seq.iter().map(Op::short).collect::<Vec<_>>());
    match xplore::run_default(move || run_seq(c, &seq).violation) {
        Ok(Some(m)) => {
            println!("replayed failure: {m}");
            1
        }
        Ok(None) => 0,
        Err(e) => {
            println!("replayed failure: {:?} {}", e.kind, e.msg);
            1
        }
    }
}
