//! H-shape exploration: explicit-state search over operation histories of
//! the *real* engine with a lock-step reference model (C01, C03; reused by
//! C06/C07/C08).

use std::{
    collections::{BTreeMap, HashMap, HashSet, VecDeque},
    sync::Arc,
};

use qbice::{Config, Engine};
use serde_json::{Value, json};

use crate::{
    pq::{Dep, Event, Key, Program, QIn, QX, Shared, Val},
    rig::{self, Ref},
    ystore,
};

#[derive(Clone, Debug, PartialEq, Eq, Hash, PartialOrd, Ord)]
pub enum W {
    Set(u8, Val),
    /// update(i, |v| (v + delta) % 3)
    Upd(u8, Val),
    Refresh,
}

#[derive(Clone, Debug, PartialEq, Eq, Hash, PartialOrd, Ord)]
pub enum Op {
    /// an input session; `commit == false` means the session is dropped
    Session { writes: Vec<W>, commit: bool },
    /// new tracked engine, query the keys in order (each twice), drop it
    Query(Vec<Key>),
    /// the outside world changes the cell an external input reads
    World(u8, Val),
    /// (DB rigs only) let the write-behind pipeline quiesce
    Drain,
    /// (DB rigs only) clean shutdown and reopen on the same store
    Restart,
    /// several primitive ops as one step of the search (macro-operation)
    Multi(Vec<Op>),
}

impl Op {
    pub fn short(&self) -> String {
        match self {
            Op::Session { writes, commit } => {
                let w: Vec<String> = writes
                    .iter()
                    .map(|w| match w {
                        W::Set(i, v) => format!("in{i}={v}"),
                        W::Upd(i, d) => format!("in{i}+={d}"),
                        W::Refresh => "refresh".into(),
                    })
                    .collect();
                format!(
                    "{}[{}]",
                    if *commit { "commit" } else { "drop" },
                    w.join(",")
                )
            }
            Op::Query(k) => format!("query{k:?}"),
            Op::World(i, v) => format!("world{i}={v}"),
            Op::Drain => "drain".into(),
            Op::Restart => "restart".into(),
            Op::Multi(v) => {
                v.iter().map(Op::short).collect::<Vec<_>>().join("; ")
            }
        }
    }

    pub fn flat(&self) -> Vec<Op> {
        match self {
            Op::Multi(v) => v.iter().flat_map(Op::flat).collect(),
            o => vec![o.clone()],
        }
    }
}

pub fn flatten(h: &[Op]) -> Vec<Op> { h.iter().flat_map(Op::flat).collect() }

pub fn hist_json(h: &[Op]) -> Value {
    json!(h.iter().map(Op::short).collect::<Vec<_>>())
}

/// Verdict-relevant memory of the C03 judge.
#[derive(Clone, Debug, Default, PartialEq, Eq)]
pub struct Judge {
    /// reads (dependency, value) of the last completed activation per key
    pub last_reads: BTreeMap<Key, Vec<(Dep, Val)>>,
    /// keys activated since the last session
    pub since_session: Vec<Key>,
    /// external inputs that have been executed at least once
    pub x_seen: Vec<u8>,
}

#[derive(Clone, Debug, PartialEq, Eq, Default)]
pub struct Finding {
    pub property: &'static str,
    /// index of the (possibly macro) operation of the history
    pub step: usize,
    /// index into the flattened history
    pub fstep: usize,
    pub what: String,
    /// structured facts for classification (wrong-value findings)
    pub key: Option<Key>,
    pub got: Option<Val>,
    /// the executor activation that read the wrong value, with the
    /// dependencies of that node's previous completed run
    pub reader: Option<(Key, Option<Vec<Dep>>)>,
    /// the key the user asked for in this step
    pub root: Option<Key>,
    /// C03: the re-executed activation was handed this wrong (stale) value
    /// of a dependency: the extra run is a consequence of that C01 finding
    pub stale_dep: Option<(Key, Val)>,
}

/// What one history run produced.
#[derive(Debug, Default)]
pub struct RunResult {
    pub findings: Vec<Finding>,
    pub canon: String,
    pub activations: usize,
    pub transitions: usize,
    /// full executor-activation log (keys in order), for differential oracles
    pub act_log: Vec<(usize, Key)>,
    pub values: Vec<(usize, Key, Val)>,
}

pub struct Lockstep {
    pub p: Program,
    pub r: Ref,
    pub judge: Judge,
    pub findings: Vec<Finding>,
    pub step: usize,
    pub fstep: usize,
    pub activations: usize,
    pub act_log: Vec<(usize, Key)>,
    pub values: Vec<(usize, Key, Val)>,
    pub in_refresh: bool,
    pub cur_root: Option<Key>,
    /// C03 judging can be disabled (e.g. after a restart boundary, where
    /// "previous read list" is still defined, or after cancellation)
    pub judge_on: bool,
    /// (node, wrong value, reader) handed to executors in the current epoch
    pub stale_seen: Vec<(Key, Val, (Key, Option<Vec<Dep>>))>,
    /// (node, root of the request) of wrong values handed to the user in the
    /// current epoch
    pub user_stale: Vec<(Key, Option<Key>)>,
    /// nodes executed in the current epoch on a wrong dependency value ->
    /// that first wrong read (node, value, reader, root)
    pub taint: HashMap<Key, (Key, Val, Option<(Key, Option<Vec<Dep>>)>, Option<Key>)>,
}

impl Lockstep {
    pub fn new(p: Program) -> Self {
        Self {
            p,
            r: Ref::default(),
            judge: Judge::default(),
            findings: Vec::new(),
            stale_seen: Vec::new(),
            user_stale: Vec::new(),
            taint: HashMap::new(),
            step: 0,
            fstep: 0,
            activations: 0,
            act_log: Vec::new(),
            values: Vec::new(),
            in_refresh: false,
            cur_root: None,
            judge_on: true,
        }
    }

    pub fn c01(&mut self, what: String) {
        self.findings.push(Finding {
            property: "C01",
            step: self.step,
            fstep: self.fstep,
            what,
            root: self.cur_root,
            ..Default::default()
        });
    }

    pub fn c01_value(
        &mut self,
        what: String,
        key: Key,
        got: Val,
        reader: Option<(Key, Option<Vec<Dep>>)>,
    ) {
        // The node whose value is wrong was itself (re-)executed in this
        // epoch on a wrong value of one of its dependencies: what it returns
        // is a consequence of that first wrong read and is classified like it
        // (the value need not be an old value of the node: it is computed
        // from a mixture of new and stale dependencies).
        if let Some((k0, g0, r0, root0)) = self.taint.get(&key).cloned() {
            if let Some((rk, _)) = &reader {
                let src = (k0, g0, r0.clone(), root0);
                self.taint.entry(*rk).or_insert(src);
            }
            self.findings.push(Finding {
                property: "C01",
                step: self.step,
                fstep: self.fstep,
                what: format!(
                    "{what} (computed in this epoch from the wrong value {g0} of {k0:?} that its executor was handed)"
                ),
                key: Some(k0),
                got: Some(g0),
                reader: r0,
                root: root0,
                stale_dep: None,
            });
            return;
        }
        if let Some((rk, _)) = &reader {
            self.taint.entry(*rk).or_insert((key, got, reader.clone(), self.cur_root));
        }
        // A wrong value handed to the USER for a node that an executor was
        // already handed the same wrong value for, earlier in this epoch, is
        // the same stale verification seen again (the node was stamped
        // verified by then): it is classified like the executor-level read.
        let (what, reader) = match reader {
            Some(r) => {
                self.stale_seen.push((key, got, r.clone()));
                (what, Some(r))
            }
            None => {
                // ... or for a node in the cone below such a node: verifying
                // the upper node "clean" stamped its whole cone as verified
                let p = self.p.clone();
                match self
                    .stale_seen
                    .iter()
                    .find(|(k, g, _)| (*k == key && *g == got) || below(&p, *k).contains(&key))
                {
                    Some((k, _, r)) => (
                        format!(
                            "{what} (stale verification already observed in this epoch when an executor was handed {k:?})"
                        ),
                        Some(r.clone()),
                    ),
                    None => (what, None),
                }
            }
        };
        // the same for a wrong value the USER already received in this epoch
        // for a node above: verifying that node "clean" stamped its cone, so a
        // later direct request of a node in the cone is the same observation
        // (it is classified with the root of the first one)
        let mut root = self.cur_root;
        if reader.is_none() {
            let p = self.p.clone();
            if let Some((_, r)) =
                self.user_stale.iter().find(|(x, _)| *x == key || below(&p, *x).contains(&key))
            {
                root = *r;
            } else {
                self.user_stale.push((key, self.cur_root));
            }
        }
        self.findings.push(Finding {
            property: "C01",
            step: self.step,
            fstep: self.fstep,
            what,
            key: Some(key),
            got: Some(got),
            reader,
            root,
            stale_dep: None,
        });
    }

    pub fn c03(&mut self, what: String) {
        if self.judge_on {
            self.findings.push(Finding {
                property: "C03",
                step: self.step,
                fstep: self.fstep,
                what,
                root: self.cur_root,
                ..Default::default()
            });
        }
    }

    /// Judge the executor activity of one step. `events` is the executor log
    /// of the step; the reference model already reflects the inputs the step
    /// ran against.
    pub fn absorb(&mut self, events: &[Event]) {
        // external snapshots first: values read from X are whatever the world
        // was when X legitimately ran
        self.r.absorb_external_runs(events);

        let mut open: HashMap<usize, (Key, Vec<(Dep, Val)>)> = HashMap::new();
        // previous read lists as they were when each activation started
        let mut prev_at_enter: HashMap<usize, Option<Vec<Dep>>> = HashMap::new();
        // index (into self.findings) of the "re-executed although ..." finding
        // of an activation
        let mut c03_of_act: HashMap<usize, usize> = HashMap::new();
        for e in events {
            match e {
                Event::Req { .. } | Event::FirstUnwind { .. } => {}
                Event::Enter { key, act, .. } => {
                    self.activations += 1;
                    self.act_log.push((self.fstep, *key));
                    open.insert(*act, (*key, Vec::new()));
                    prev_at_enter.insert(
                        *act,
                        self.judge
                            .last_reads
                            .get(key)
                            .map(|v| v.iter().map(|(d, _)| *d).collect()),
                    );
                    // --- C03: is this activation justified? ---
                    match key {
                        Key::C(_) => {
                            if let Some(prev) = self.judge.last_reads.get(key)
                            {
                                let changed = prev.iter().any(|(d, v)| {
                                    self.r.eval(&self.p, rig::key_of_dep(*d))
                                        != Some(*v)
                                });
                                if !changed {
                                    let deps: Vec<Dep> =
                                        prev.iter().map(|(d, _)| *d).collect();
                                    let what = format!(
                                        "{key:?} re-executed although every \
                                         dependency of its previous run \
                                         {prev:?} still has the same value"
                                    );
                                    if self.judge_on {
                                        c03_of_act.insert(*act, self.findings.len());
                                        self.findings.push(Finding {
                                            property: "C03",
                                            step: self.step,
                                            fstep: self.fstep,
                                            what,
                                            key: Some(*key),
                                            reader: Some((*key, Some(deps))),
                                            root: self.cur_root,
                                            ..Default::default()
                                        });
                                    }
                                }
                            }
                        }
                        Key::X(i) => {
                            if self.judge.x_seen.contains(i) && !self.in_refresh
                            {
                                self.c03(format!(
                                    "external input {key:?} executed again \
                                     outside refresh"
                                ));
                            }
                            if !self.judge.x_seen.contains(i) {
                                self.judge.x_seen.push(*i);
                            }
                        }
                        Key::In(_) => {}
                    }
                }
                Event::Read { act, dep, val } => {
                    if let Some(o) = open.get_mut(act) {
                        o.1.push((*dep, *val));
                    }
                    // --- C01: value handed to an executor ---
                    let want = self.r.eval(&self.p, rig::key_of_dep(*dep));
                    if want != Some(*val) {
                        if let Some(fi) = c03_of_act.get(act) {
                            if self.findings[*fi].stale_dep.is_none() {
                                self.findings[*fi].stale_dep = Some((rig::key_of_dep(*dep), *val));
                                self.findings[*fi].what.push_str(&format!(
                                    " (the engine handed it the stale value {val} of {dep:?}: consequence of that wrong value)"
                                ));
                            }
                        }
                        let reader = open.get(act).map(|o| {
                            (o.0, prev_at_enter.get(act).cloned().flatten())
                        });
                        self.c01_value(
                            format!(
                                "executor read {dep:?} = {val}, from-scratch \
                                 value is {want:?}"
                            ),
                            rig::key_of_dep(*dep),
                            *val,
                            reader,
                        );
                    }
                }
                Event::Exit { key, act, val } => {
                    if let Some((k, reads)) = open.remove(act) {
                        // an activation that was cut short (the engine
                        // aborts sibling chunks of an unordered group) may
                        // be recomputed: only completed runs count
                        if val.is_some() {
                            if let Key::C(_) = k {
                                self.judge.last_reads.insert(k, reads);
                                if self.judge.since_session.contains(&k) {
                                    self.c03(format!(
                                        "{k:?} ran to completion twice \
                                         between two input sessions"
                                    ));
                                }
                            }
                            if !self.judge.since_session.contains(&k) {
                                self.judge.since_session.push(k);
                            }
                        }
                    }
                    let _ = key;
                }
            }
        }
    }

    pub fn user_value(&mut self, k: Key, v: Val) {
        self.values.push((self.fstep, k, v));
        let want = self.r.eval(&self.p, k);
        if want != Some(v) {
            self.c01_value(
                format!(
                    "query {k:?} returned {v}, from-scratch value is {want:?}"
                ),
                k,
                v,
                None,
            );
        }
    }

    pub fn session_boundary(&mut self) {
        self.judge.since_session.clear();
        self.stale_seen.clear();
        self.user_stale.clear();
        self.taint.clear();
    }
}

/// Apply one session op to a live engine + the lock-step model.
pub async fn do_session<C: Config>(
    eng: &Arc<Engine<C>>,
    sh: &Arc<Shared>,
    ls: &mut Lockstep,
    writes: &[W],
    commit: bool,
) {
    let mut s = eng.input_session().await;
    ls.session_boundary();
    for w in writes {
        match w {
            W::Set(i, v) => {
                let got = s.set_input(QIn(*i), *v).await;
                let want = ls.r.set_input(*i, *v);
                if got != want {
                    ls.c01(format!(
                        "set_input(in{i},{v}) returned {got:?}, model says \
                         {want:?}"
                    ));
                }
            }
            W::Upd(i, d) => {
                let d = *d;
                let cur = ls.r.inputs[*i as usize];
                let mut seen: Option<Option<Val>> = None;
                let got = s
                    .update(QIn(*i), |old| {
                        seen = Some(old);
                        (old.unwrap_or(0) + d) % 3
                    })
                    .await;
                if seen != Some(cur) {
                    ls.c01(format!(
                        "update(in{i}) saw {seen:?}, model has {cur:?}"
                    ));
                }
                let want = ls.r.set_input(*i, (cur.unwrap_or(0) + d) % 3);
                if got != want {
                    ls.c01(format!(
                        "update(in{i},+{d}) returned {got:?}, model says \
                         {want:?}"
                    ));
                }
            }
            W::Refresh => {
                ls.in_refresh = true;
                s.refresh::<QX>().await;
                let ev = sh.take_events();
                // every external input that was ever executed must be
                // re-executed by refresh, exactly once
                let mut ran: Vec<u8> = ev
                    .iter()
                    .filter_map(|e| match e {
                        Event::Enter { key: Key::X(i), .. } => Some(*i),
                        _ => None,
                    })
                    .collect();
                ran.sort_unstable();
                let mut want = ls.judge.x_seen.clone();
                want.sort_unstable();
                if ran != want {
                    ls.c01(format!(
                        "refresh re-executed external inputs {ran:?}, expected \
                         exactly {want:?}"
                    ));
                }
                // refresh does not count as "activation since last session"
                let keep = ls.judge.since_session.clone();
                ls.absorb(&ev);
                ls.judge.since_session = keep;
                ls.in_refresh = false;
            }
        }
    }
    if commit {
        s.commit().await;
    } else {
        drop(s);
    }
    let stray = sh.take_events();
    if !stray.is_empty() {
        ls.c03(format!("executor activity during a session: {stray:?}"));
    }
}

pub async fn do_query<C: Config>(
    eng: &Arc<Engine<C>>,
    sh: &Arc<Shared>,
    ls: &mut Lockstep,
    keys: &[Key],
) {
    let te = eng.clone().tracked().await;
    let has_partial = ls.p.nodes.iter().any(|n| matches!(n.body, crate::pq::Body::Partial(_)));
    for k in keys {
        ls.cur_root = Some(*k);
        let v = if has_partial {
            // programs with partial executors: a panic of the query is an
            // outcome (expected iff the from-scratch evaluation faults too)
            use futures::FutureExt;
            let r = std::panic::AssertUnwindSafe(rig::query(sh, &te, *k)).catch_unwind().await;
            match r {
                Ok(v) => v,
                Err(pl) => {
                    let msg = pl
                        .downcast_ref::<String>()
                        .cloned()
                        .or_else(|| pl.downcast_ref::<&str>().map(|s| (*s).to_string()))
                        .unwrap_or_default();
                    let ev = sh.take_events();
                    ls.absorb(&ev);
                    let want = ls.r.eval(&ls.p, *k);
                    // the from-scratch evaluation faults too: a panic is the
                    // expected outcome (the engine may wrap the payload)
                    if want.is_some() {
                        ls.c01(format!(
                            "query {k:?} panicked ({msg}); from-scratch value is {want:?}: an executor was run on a \
                             state that a from-scratch evaluation never reaches"
                        ));
                    }
                    let _ = crate::xplore::take_panic_log();
                    continue;
                }
            }
        } else {
            rig::query(sh, &te, *k).await
        };
        let ev = sh.take_events();
        ls.absorb(&ev);
        ls.user_value(*k, v);
        // a repeated query re-executes nothing and returns the same value
        let v2 = rig::query(sh, &te, *k).await;
        let ev2 = sh.take_events();
        if v2 != v {
            ls.c01(format!("repeated query {k:?}: {v} then {v2}"));
        }
        if ev2.iter().any(|e| matches!(e, Event::Enter { .. })) {
            ls.c03(format!("repeated query {k:?} re-executed: {ev2:?}"));
        }
    }
    ls.cur_root = None;
    drop(te);
}

/// Inputs a program mentions.
pub fn inputs_of(p: &Program) -> Vec<u8> {
    let mut v: Vec<u8> = p
        .nodes
        .iter()
        .flat_map(|n| n.body.deps())
        .filter_map(|d| if let Dep::In(i) = d { Some(i) } else { None })
        .collect();
    v.sort_unstable();
    v.dedup();
    v
}

pub fn externals_of(p: &Program) -> Vec<u8> {
    let mut v: Vec<u8> = p
        .nodes
        .iter()
        .flat_map(|n| n.body.deps())
        .filter_map(|d| if let Dep::X(i) = d { Some(i) } else { None })
        .collect();
    v.sort_unstable();
    v.dedup();
    v
}

/// Run a history on a fresh in-memory engine (inside a shuttle execution).
pub async fn run_mem(p: &Program, hist: &[Op], abstract_ts: bool) -> RunResult {
    ystore::set_yield_mask(0);
    ystore::set_shadow(true);
    let sh = Shared::new(p.clone());
    let eng = rig::new_mem_engine(&sh).await;
    let mut ls = Lockstep::new(p.clone());
    let mut sessions = 0u64;

    // implicit initial session: all mentioned inputs = 0
    let init: Vec<W> = inputs_of(p).into_iter().map(|i| W::Set(i, 0)).collect();
    do_session(&eng, &sh, &mut ls, &init, true).await;
    sessions += 1;

    let mut f = 0usize;
    for (i, top) in hist.iter().enumerate() {
        ls.step = i;
        for op in top.flat() {
            ls.fstep = f;
            f += 1;
            match &op {
                Op::Session { writes, commit } => {
                    do_session(&eng, &sh, &mut ls, writes, *commit).await;
                    sessions += 1;
                }
                Op::Query(keys) => do_query(&eng, &sh, &mut ls, keys).await,
                Op::World(c, v) => {
                    sh.world.lock().unwrap()[*c as usize] = *v;
                    ls.r.world[*c as usize] = *v;
                }
                Op::Drain | Op::Restart | Op::Multi(_) => {}
            }
        }
    }

    // make sure a dropped session has been committed before dumping
    let te = eng.clone().tracked().await;
    drop(te);

    let dump = ystore::shadow_dump();
    ystore::set_shadow(false);
    let canon = canon_state(&dump, sessions, abstract_ts, &ls);
    drop(eng);

    RunResult {
        findings: ls.findings,
        canon,
        activations: ls.activations,
        transitions: hist.len(),
        act_log: ls.act_log,
        values: ls.values,
    }
}

#[derive(Clone, Copy, Debug, PartialEq, Eq)]
pub struct DbConf {
    pub cap: u64,
    pub grouping: crate::memkv::Grouping,
}

/// Let the write-behind pipeline quiesce (deterministic phases only).
pub fn drain_pipeline() {
    loop {
        let mut any = false;
        for t in [
            crate::store::T_SER0,
            crate::store::T_SER1,
            crate::store::T_COMMIT,
            crate::store::T_NOTIFY,
        ] {
            any |= crate::xplore::pump(t);
        }
        if !any {
            break;
        }
    }
}

#[derive(Debug, Default)]
pub struct DbRun {
    pub run: RunResult,
    /// ordered physical commit log of the store at the end
    pub log: Vec<Vec<crate::memkv::Op>>,
    /// input snapshots (after the initial session and after every session)
    pub snapshots: Vec<Ref>,
}

/// Run a history on an engine over `DbBacked<MemKv>` (inside a shuttle
/// execution, deterministic scheduling). `Restart` = clean shutdown + new
/// engine (new interner, new caches) on the same store; `Drain` lets the
/// pipeline quiesce.
pub async fn run_db(p: &Program, hist: &[Op], c: DbConf) -> DbRun {
    crate::xplore::exploring(false);
    ystore::set_yield_mask(0);
    ystore::set_shadow(true);
    let sh = Shared::new(p.clone());
    let store = crate::memkv::new_state(c.grouping, false);
    let mut eng = Some(rig::new_db_engine(&sh, store.clone(), c.cap, 1).await);
    let mut ls = Lockstep::new(p.clone());
    let mut sessions = 0u64;
    let mut snaps = Vec::new();

    let init: Vec<W> = inputs_of(p).into_iter().map(|i| W::Set(i, 0)).collect();
    do_session(eng.as_ref().unwrap(), &sh, &mut ls, &init, true).await;
    sessions += 1;
    snaps.push(ls.r.clone());

    let mut f = 0usize;
    for (i, top) in hist.iter().enumerate() {
        ls.step = i;
        for op in top.flat() {
            ls.fstep = f;
            f += 1;
            match &op {
                Op::Session { writes, commit } => {
                    do_session(eng.as_ref().unwrap(), &sh, &mut ls, writes, *commit)
                        .await;
                    sessions += 1;
                    snaps.push(ls.r.clone());
                }
                Op::Query(keys) => {
                    do_query(eng.as_ref().unwrap(), &sh, &mut ls, keys).await;
                }
                Op::World(cix, v) => {
                    sh.world.lock().unwrap()[*cix as usize] = *v;
                    ls.r.world[*cix as usize] = *v;
                }
                Op::Drain => drain_pipeline(),
                Op::Restart => {
                    // wait for a dropped session's background commit
                    let te = eng.as_ref().unwrap().clone().tracked().await;
                    drop(te);
                    drop(eng.take());
                    eng = Some(
                        rig::new_db_engine(&sh, store.clone(), c.cap, 1).await,
                    );
                }
                Op::Multi(_) => {}
            }
        }
    }

    let te = eng.as_ref().unwrap().clone().tracked().await;
    drop(te);
    drop(eng.take());

    let dump = ystore::shadow_dump();
    ystore::set_shadow(false);
    let mut canon = canon_state(&dump, sessions, true, &ls);
    let (content_hash, log) = {
        let g = store.lock().unwrap();
        (fxhash::hash64(&format!("{:?}", g.content)), g.log.clone())
    };
    canon.push_str(&format!(" store={content_hash:x}"));
    // The live engine of a restarted history is NOT assumed equivalent to
    // the never-restarted one (that is the property): histories with a
    // restart among their last 3 operations are kept apart.
    let flat = flatten(hist);
    if let Some(pos) = flat.iter().rposition(|o| matches!(o, Op::Restart)) {
        let since = flat.len() - 1 - pos;
        if since < 3 {
            canon.push_str(&format!(" restarted-{since}-ops-ago"));
        }
    }

    DbRun {
        run: RunResult {
            findings: ls.findings,
            canon,
            activations: ls.activations,
            transitions: hist.len(),
            act_log: ls.act_log,
            values: ls.values,
        },
        log,
        snapshots: snaps,
    }
}

/// Canonical state: everything the engine persists (timestamps abstracted to
/// "== current epoch?" — the code only ever compares them for equality with
/// the caller's epoch) + reference model + judge memory.
pub fn canon_state(
    dump: &BTreeMap<String, String>,
    cur_ts: u64,
    abstract_ts: bool,
    ls: &Lockstep,
) -> String {
    let mut s = String::new();
    for (k, v) in dump {
        s.push_str(k);
        s.push('=');
        if abstract_ts {
            s.push_str(&abstract_timestamps(v, cur_ts));
        } else {
            s.push_str(v);
        }
        s.push('\n');
    }
    s.push_str(&format!(
        "ref={:?} judge={:?}",
        ls.r, ls.judge
    ));
    s
}

fn abstract_timestamps(v: &str, cur: u64) -> String {
    let mut out = String::with_capacity(v.len());
    let pat = "Timestamp(";
    let mut rest = v;
    while let Some(p) = rest.find(pat) {
        out.push_str(&rest[..p]);
        let after = &rest[p + pat.len()..];
        let end = after.find(')').unwrap_or(0);
        let n: u64 = after[..end].parse().unwrap_or(u64::MAX);
        out.push_str(if n == cur { "T(now)" } else { "T(old)" });
        rest = &after[end + 1..];
    }
    out.push_str(rest);
    out
}

/// Default history alphabet for a program.
pub fn alphabet(p: &Program, rich: bool) -> Vec<Op> {
    let ins = inputs_of(p);
    let xs = externals_of(p);
    let mut ops = Vec::new();
    for &i in &ins {
        let vals: &[Val] = if i == 0 { &[0, 1, 2] } else { &[0, 1] };
        for &v in vals {
            ops.push(Op::Session { writes: vec![W::Set(i, v)], commit: true });
        }
    }
    if ins.len() >= 2 {
        // both inputs in one session (incl. the combination that cancels out
        // for Add bodies)
        for (a, b) in [(1, 1), (2, 1), (1, 0), (0, 1)] {
            ops.push(Op::Session {
                writes: vec![W::Set(ins[0], a), W::Set(ins[1], b)],
                commit: true,
            });
        }
    }
    if let Some(&i) = ins.first() {
        ops.push(Op::Session { writes: vec![W::Set(i, 1)], commit: false });
        ops.push(Op::Session { writes: vec![W::Upd(i, 1)], commit: true });
        // the same input assigned twice in one session (the last write wins,
        // in memory and in the store)
        ops.push(Op::Session { writes: vec![W::Set(i, 1), W::Set(i, 2)], commit: true });
        ops.push(Op::Session { writes: vec![W::Set(i, 2), W::Upd(i, 1)], commit: true });
        if rich {
            // change and change back inside one session
            ops.push(Op::Session {
                writes: vec![W::Upd(i, 1), W::Upd(i, 2)],
                commit: true,
            });
        }
    }
    ops.push(Op::Session { writes: vec![], commit: true });
    for &x in &xs {
        ops.push(Op::World(x, 1));
        ops.push(Op::World(x, 0));
        ops.push(Op::Session { writes: vec![W::Refresh], commit: true });
        if let Some(&i) = ins.first() {
            ops.push(Op::Session {
                writes: vec![W::Refresh, W::Set(i, 2)],
                commit: true,
            });
        }
    }
    let n = p.nodes.len() as u8;
    // macro-operations: an edit immediately followed by a query of the root
    // (reaches "query; edit; query; edit; query" at depth 3)
    let root = Key::C(n - 1);
    // "query everything": the root first (so that repair starts at the top),
    // then every other node, inside one tracked engine
    let all_top_down: Vec<Key> = (0..n).rev().map(Key::C).collect();
    for &i in &ins {
        let vals: &[Val] = if i == 0 { &[1, 2, 0] } else { &[1, 0] };
        for &v in vals {
            ops.push(Op::Multi(vec![
                Op::Session { writes: vec![W::Set(i, v)], commit: true },
                Op::Query(all_top_down.clone()),
            ]));
        }
    }
    // an edit followed by a query of the LOWEST node only (everything above
    // it is not repaired in that epoch)
    if n >= 2 {
        if let Some(&i) = ins.first() {
            for v in [1, 0] {
                ops.push(Op::Multi(vec![
                    Op::Session { writes: vec![W::Set(i, v)], commit: true },
                    Op::Query(vec![Key::C(0)]),
                ]));
            }
        }
    }
    if ins.len() >= 2 {
        // both inputs changed in one session, then everything queried
        for (a, b) in [(2, 1), (1, 0)] {
            ops.push(Op::Multi(vec![
                Op::Session { writes: vec![W::Set(ins[0], a), W::Set(ins[1], b)], commit: true },
                Op::Query(all_top_down.clone()),
            ]));
        }
    }
    for &x in &xs {
        for v in [1, 0] {
            ops.push(Op::Multi(vec![
                Op::World(x, v),
                Op::Session { writes: vec![W::Refresh], commit: true },
            ]));
            ops.push(Op::Multi(vec![
                Op::World(x, v),
                Op::Session { writes: vec![W::Refresh], commit: true },
                Op::Query(vec![root]),
            ]));
        }
    }
    for j in 0..n {
        ops.push(Op::Query(vec![Key::C(j)]));
    }
    if n >= 2 {
        // an inner node first, then the root, inside one tracked engine
        ops.push(Op::Query(vec![Key::C(0), Key::C(n - 1)]));
    }
    for &x in &xs {
        ops.push(Op::Query(vec![Key::X(x)]));
    }
    ops
}

#[derive(Debug, Default)]
pub struct SearchStats {
    pub states: u64,
    pub transitions: u64,
    pub runs: u64,
    pub max_depth: usize,
    pub activations: u64,
    pub capped: bool,
}

/// Breadth-first search over histories with state de-duplication, as a
/// state machine: `next()` hands out the next history to execute on a fresh
/// engine, `submit()` takes its result.
pub struct Search {
    alphabet: Vec<Op>,
    depth: usize,
    max_states: usize,
    seen: HashSet<u64>,
    frontier: VecDeque<Vec<Op>>,
    /// history being extended and the next alphabet index
    cur: Option<(Vec<Op>, usize)>,
    root_done: bool,
    pub stats: SearchStats,
    pub findings: Vec<Case>,
}

/// A failing case: history, finding, executor-activation log of the run.
#[derive(Debug, Clone)]
pub struct Case {
    pub hist: Vec<Op>,
    pub finding: Finding,
    pub acts: Vec<(usize, Key)>,
}

impl Search {
    pub fn new(alphabet: Vec<Op>, depth: usize, max_states: usize) -> Self {
        Self {
            alphabet,
            depth,
            max_states,
            seen: HashSet::new(),
            frontier: VecDeque::new(),
            cur: None,
            root_done: false,
            stats: SearchStats::default(),
            findings: Vec::new(),
        }
    }

    pub fn next(&mut self) -> Option<Vec<Op>> {
        if !self.root_done {
            return Some(vec![]);
        }
        loop {
            if let Some((h, i)) = &mut self.cur {
                if *i < self.alphabet.len() {
                    let mut h2 = h.clone();
                    h2.push(self.alphabet[*i].clone());
                    *i += 1;
                    return Some(h2);
                }
                self.cur = None;
            }
            let h = self.frontier.pop_front()?;
            if h.len() >= self.depth {
                continue;
            }
            self.cur = Some((h, 0));
        }
    }

    pub fn submit(&mut self, h: Vec<Op>, r: RunResult) {
        self.stats.runs += 1;
        if !self.root_done {
            self.root_done = true;
            self.seen.insert(fxhash::hash64(&r.canon));
            for f in r.findings {
                self.findings.push(Case {
                    hist: vec![],
                    finding: f,
                    acts: r.act_log.clone(),
                });
            }
            self.frontier.push_back(vec![]);
            self.stats.states = 1;
            return;
        }
        self.stats.transitions += 1;
        self.stats.activations += r.activations as u64;
        self.stats.max_depth = self.stats.max_depth.max(h.len());
        let new_findings: Vec<_> = r
            .findings
            .into_iter()
            .filter(|f| f.step + 1 >= h.len())
            .collect();
        let bad = !new_findings.is_empty();
        for f in new_findings {
            // at most 20 cases per (key, value, reader) class, so that a
            // frequent (known) failure cannot crowd out a rare one
            let same = self
                .findings
                .iter()
                .filter(|c| c.finding.key == f.key && c.finding.got == f.got && c.finding.reader == f.reader)
                .count();
            if same < 20 && self.findings.len() < 2000 {
                self.findings.push(Case {
                    hist: h.clone(),
                    finding: f,
                    acts: r.act_log.clone(),
                });
            }
        }
        // histories that already failed are not extended
        if !bad && self.seen.insert(fxhash::hash64(&r.canon)) {
            if self.seen.len() >= self.max_states {
                self.stats.capped = true;
            } else {
                self.frontier.push_back(h);
            }
        }
        self.stats.states = self.seen.len() as u64;
    }

    pub fn has_more(&mut self) -> bool {
        if !self.root_done {
            return true;
        }
        if let Some((_, i)) = &self.cur {
            if *i < self.alphabet.len() {
                return true;
            }
        }
        self.frontier.iter().any(|h| h.len() < self.depth)
    }
}

// ---------------------------------------------------------------------------
// classification of wrong-value findings (known-findings triggers)
// ---------------------------------------------------------------------------

fn reach(p: &Program, k: Key, out: &mut Vec<Key>) {
    if let Key::C(j) = k {
        for d in p.nodes[j as usize].body.deps() {
            let kk = rig::key_of_dep(d);
            if !out.contains(&kk) {
                out.push(kk);
                reach(p, kk, out);
            }
        }
    }
}

/// keys strictly below `k` (static reachability)
pub fn below(p: &Program, k: Key) -> Vec<Key> {
    let mut v = Vec::new();
    reach(p, k, &mut v);
    v
}

/// Input snapshots: `snaps[0]` after the implicit initial session, one more
/// after every session op; `at[i]` = index of the snapshot current at step i.
pub fn snapshots(p: &Program, h: &[Op]) -> (Vec<Ref>, Vec<usize>) {
    let mut r = Ref::default();
    for i in inputs_of(p) {
        r.set_input(i, 0);
    }
    // externals are judged against the world value
    let mut snaps = vec![r.clone()];
    let mut at = Vec::new();
    for op in h {
        match op {
            Op::Session { writes, .. } => {
                for w in writes {
                    match w {
                        W::Set(i, v) => {
                            r.set_input(*i, *v);
                        }
                        W::Upd(i, d) => {
                            let c = r.inputs[*i as usize].unwrap_or(0);
                            r.set_input(*i, (c + d) % 3);
                        }
                        W::Refresh => {
                            r.xsnap = r.world.map(Some);
                        }
                    }
                }
                snaps.push(r.clone());
            }
            Op::World(c, v) => r.world[*c as usize] = *v,
            _ => {}
        }
        at.push(snaps.len() - 1);
    }
    (snaps, at)
}

/// Tags describing a wrong-value finding in terms of program + history only
/// (pure functions of the reference model), used as known-finding triggers:
///
/// * `stale-behind-changed-firewall`: the wrong value is the key's
///   from-scratch value under an earlier input snapshot, and a firewall
///   strictly below the key has a different from-scratch value now;
/// * `F10a-new-edge-onto-stale-node`: additionally the value was read by an
///   executor activation whose previous run did not depend on the key (fresh
///   caller, or a re-execution that picked up a new dependency);
/// * `F10b-root-tfc-stale`: additionally a node strictly below the user's
///   root was executed in an earlier epoch in which the root itself was not
///   repaired, and the root has not been repaired since.
pub fn classify(p: &Program, h: &[Op], acts: &[(usize, Key)], f: &Finding) -> Vec<String> {
    let mut tags = Vec::new();
    if f.property == "C03" {
        // an extra run that was triggered by a stale value is classified like
        // the stale value itself
        if let Some((x, v)) = f.stale_dep {
            let pseudo = Finding {
                property: "C01",
                step: f.step,
                fstep: f.fstep,
                what: String::new(),
                key: Some(x),
                got: Some(v),
                reader: f.reader.clone(),
                root: f.root,
                stale_dep: None,
            };
            return classify(p, h, acts, &pseudo);
        }
        // F10d: a projection re-run by backward projection although the
        // firewall/projection it reads is back at the value it saw
        if let (Some(k @ Key::C(j)), Some((_, Some(deps)))) = (f.key, &f.reader) {
            if p.nodes[j as usize].style == crate::pq::Style::P {
                let hf = flatten(h);
                if f.fstep < hf.len() {
                    let (snaps, at) = snapshots(p, &hf);
                    let t = at[f.fstep];
                    let last_run = acts
                        .iter()
                        .filter(|(s, y)| *y == k && *s < f.fstep)
                        .map(|(s, _)| at[*s])
                        .max();
                    if let Some(j0) = last_run {
                        let fill = |r: &Ref| {
                            let mut r = r.clone();
                            for i in 0..r.xsnap.len() {
                                if r.xsnap[i].is_none() {
                                    r.xsnap[i] = Some(r.world[i]);
                                }
                            }
                            r
                        };
                        let now = fill(&snaps[t]);
                        let flipped = (j0 + 1..t).any(|jm| {
                            let mid = fill(&snaps[jm]);
                            deps.iter().any(|d| {
                                mid.eval(p, rig::key_of_dep(*d))
                                    != now.eval(p, rig::key_of_dep(*d))
                            })
                        });
                        if flipped {
                            tags.push(
                                "F10d-projection-rerun-after-revert".to_string(),
                            );
                        }
                    }
                }
            }
        }
        return tags;
    }
    // F19: the user's query panicked although its from-scratch value exists:
    // the panic came out of the transitive-firewall repair (JoinSet) that the
    // outermost caller runs before anything else - a firewall with a partial
    // executor was re-executed although the evaluation no longer demands it
    if f.what.contains("panicked") && f.what.contains("JoinError(panic=true)") {
        let partial_fw = p.nodes.iter().any(|n| {
            n.style == crate::pq::Style::F && matches!(n.body, crate::pq::Body::Partial(_))
        });
        if partial_fw {
            tags.push("F19-undemanded-firewall-repaired".to_string());
        }
        return tags;
    }
    let (Some(x), Some(v)) = (f.key, f.got) else { return tags };
    let h = &flatten(h)[..];
    let fstep = f.fstep;
    if fstep >= h.len() {
        return tags;
    }
    let (snaps, at) = snapshots(p, h);
    let t = at[fstep];
    // external inputs: the value of the last refresh, else the world value
    let with_x = |r: &Ref| {
        let mut r = r.clone();
        for i in 0..r.xsnap.len() {
            if r.xsnap[i].is_none() {
                r.xsnap[i] = Some(r.world[i]);
            }
        }
        r
    };
    let now = with_x(&snaps[t]);
    let fws: Vec<Key> = below(p, x)
        .into_iter()
        .filter(|k| matches!(k, Key::C(j) if p.nodes[*j as usize].style == crate::pq::Style::F))
        .collect();
    let stale_fw = (0..t).any(|j| {
        let old = with_x(&snaps[j]);
        old.eval(p, x) == Some(v)
            && now.eval(p, x) != Some(v)
            && fws.iter().any(|fk| old.eval(p, *fk) != now.eval(p, *fk))
    });
    if !stale_fw {
        return tags;
    }
    tags.push("stale-behind-changed-firewall".to_string());
    if let Some((_rd, prev)) = &f.reader {
        let had = prev
            .as_ref()
            .is_some_and(|d| d.iter().any(|d| rig::key_of_dep(*d) == x));
        if !had {
            tags.push("F10a-new-edge-onto-stale-node".to_string());
        }
    }
    if let Some(root) = f.root {
        let below_root = below(p, root);
        let above_or_eq = |k: &Key| *k == root || below(p, *k).contains(&root);
        let mut hit = false;
        for s in 0..fstep {
            let Op::Query(ks) = &h[s] else { continue };
            let executed_below = acts
                .iter()
                .any(|(st, y)| *st == s && below_root.contains(y));
            if !executed_below {
                continue;
            }
            // the root (or a node above it) was requested in that step: its
            // recorded firewall set is refreshed only if it was RE-EXECUTED;
            // a root that was merely verified clean (the lower node's value
            // did not change) keeps the stale set
            let root_executed = |st: usize| acts.iter().any(|(s2, y)| *s2 == st && above_or_eq(y));
            if ks.iter().any(above_or_eq) && root_executed(s) {
                continue;
            }
            let repaired_since = (s + 1..fstep).any(|s2| root_executed(s2));
            if !repaired_since {
                hit = true;
            }
        }
        if hit {
            tags.push("F10b-root-tfc-stale".to_string());
        }
    }
    // F10c: a firewall below the key was re-executed in an EARLIER epoch
    // (after the stale snapshot) and a projection between it and the key was
    // not executed from then until that epoch ended: the backward projection
    // that was pending at the end of that epoch is never carried out.
    {
        let is = |k: &Key, st: crate::pq::Style| matches!(k, Key::C(j) if p.nodes[*j as usize].style == st);
        let mut cands: Vec<Key> = below(p, x);
        cands.push(x);
        let projs: Vec<Key> =
            cands.iter().copied().filter(|k| is(k, crate::pq::Style::P)).collect();
        let mut hit = false;
        for pk in &projs {
            for fk in below(p, *pk).into_iter().filter(|k| is(k, crate::pq::Style::F)) {
                for (s1, y) in acts {
                    if *y != fk || *s1 >= fstep || at[*s1] >= t {
                        continue;
                    }
                    let epoch = at[*s1];
                    let proj_ran_later = acts.iter().any(|(s2, y2)| {
                        *y2 == *pk && *s2 >= *s1 && at[*s2] == epoch
                    });
                    if !proj_ran_later {
                        hit = true;
                    }
                }
            }
        }
        if hit {
            tags.push("F10c-pending-backward-projection-lost".to_string());
        }
    }
    tags
}
