//! vh — verification harness for qbice (see /verif/DESIGN.md).
#![allow(clippy::all)]

pub mod c01;
pub mod c02;
pub mod c04;
pub mod c05;
pub mod c06;
pub mod c07;
pub mod c09;
pub mod c10;
pub mod c11;
pub mod store;
pub mod c12;
pub mod c15;
pub mod c16;
pub mod hist;
pub mod memkv;
pub mod pq;
pub mod report;
pub mod rig;
pub mod xplore;
pub mod ystore;
