use std::process::exit;

fn usage() -> ! {
    eprintln!("usage: vh check <ID> | vh replay <path>");
    exit(2)
}

fn main() {
    let args: Vec<String> = std::env::args().collect();
    if args.len() < 3 {
        usage();
    }
    let code = match args[1].as_str() {
        "check" => match args[2].as_str() {
            "C01" => vh::c01::check("C01"),
            "C02" => vh::c02::check(),
            "C03" => vh::c01::check("C03"),
            "C04" => vh::c04::check(),
            "C05" => vh::c05::check(),
            "C06" => vh::c06::check(),
            "C07" => vh::c07::check("C07"),
            "C08" => vh::c07::check("C08"),
            "C09" => vh::c09::check(),
            "C11" => vh::c11::check(),
            "C12" => vh::c12::check_c12(),
            "C13" => vh::c12::check_c13(),
            "C14" => vh::c12::check_c14(),
            "C15" => vh::c15::check(),
            "C16" => vh::c16::check(),
            "C10" => vh::c10::check(),
            _ => usage(),
        },
        "child" => {
            let idx: usize = args.get(3).and_then(|s| s.parse().ok()).unwrap_or(0);
            match args[2].as_str() {
                "c02" => vh::c02::child(idx),
                "c02w" => vh::c02::child_wide(idx),
                "c04" => vh::c04::child(idx),
                "c09s" => vh::c09::child_s(idx),
                "c10" => vh::c10::child(idx),
                "c06s" => vh::c06::child_s(idx),
                "c06d" => vh::c06::child_d(idx),
                "c05s" => vh::c05::child_s(idx),
                "c16s" => vh::c16::child_s(idx),
                "c16m" => vh::c16::child_m(idx),
                "c15" => vh::c15::child(idx),
                "hashdigest" | "iddigest" => vh::c12::child(args[2].as_str()),
                // machinery self-test: a child that blocks for good / that is slow but busy
                "hang" => std::thread::sleep(std::time::Duration::from_secs(100_000)),
                "busy" => {
                    let t = std::time::Instant::now();
                    let mut x = 0u64;
                    while t.elapsed() < std::time::Duration::from_secs(15) {
                        x = x.wrapping_mul(6364136223846793005).wrapping_add(1);
                    }
                    vh::report::emit_child_result(&serde_json::json!({"x": x}));
                }
                _ => usage(),
            }
            0
        }
        "selftest" => {
            // the hang detector: a blocked child is given up, a busy one that
            // overruns the wall-clock limit is not
            let t = std::time::Duration::from_secs(3);
            let hung = matches!(vh::report::run_child(&["hang".into(), "0".into()], t), vh::report::Child::TimedOut);
            let busy = matches!(vh::report::run_child(&["busy".into(), "0".into()], t), vh::report::Child::Done(_));
            println!("blocked child given up: {hung}; busy child past the limit waited for: {busy}");
            i32::from(!(hung && busy)) * 2
        }
        "replay" => {
            let s = std::fs::read_to_string(&args[2]).expect("read replay file");
            let v: serde_json::Value = serde_json::from_str(&s).expect("json");
            let r = &v["replay"];
            match r["check"].as_str().unwrap_or("") {
                "c01" => vh::c01::replay(r),
                "c02" | "c02w" => vh::c02::replay(r),
                "c04" => vh::c04::replay(r),
                "c09h" | "c09s" => vh::c09::replay(r),
                "c10" => vh::c10::replay(r),
                "c07" => vh::c07::replay(r),
                "c05" | "c05s" => vh::c05::replay(r),
                "c16h" | "c16s" | "c16m" | "c16r" => vh::c16::replay(r),
                "c15" | "c15enc" => vh::c15::replay(r),
                "c11" => vh::c11::replay(r),
                "c12" | "c13" | "c14" => vh::c12::replay(r),
                "c06h" | "c06s" | "c06d" => vh::c06::replay(r),
                _ => usage(),
            }
        }
        _ => usage(),
    };
    exit(code)
}
