//! MemKv — an in-memory `KvDatabase` for the harness.
//!
//! * encodes keys/values through the real Postcard encoder + plugin, so
//!   persisted bytes go through the repository's `Encode`/`Decode`;
//! * logs every physical commit as a list of byte-level ops (crash prefixes
//!   for C08, exactly-once/in-order oracle for C10);
//! * answers `should_write_more` from an enumerated grouping policy;
//! * reads and commits are scheduling points when run inside shuttle.

use std::{
    collections::{BTreeMap, BTreeSet},
    sync::{Arc, Mutex},
};

use qbice::{
    serialize::{
        Decoder, Encode, Encoder, Plugin, PostcardDecoder, PostcardEncoder,
    },
    storage::kv_database::{
        KeyOfSetColumn, KvDatabase, KvDatabaseFactory, SerializationBuffer,
        WideColumn, WideColumnValue, WriteBatch,
    },
};

#[derive(Clone, Debug, PartialEq, Eq, Hash, PartialOrd, Ord)]
pub enum Op {
    Put(u128, Vec<u8>, Vec<u8>),
    Del(u128, Vec<u8>),
    Ins(u128, Vec<u8>, Vec<u8>),
    Rem(u128, Vec<u8>, Vec<u8>),
}

#[derive(Clone, Copy, Debug, PartialEq, Eq, Hash)]
pub enum Grouping {
    /// every logical batch is its own physical commit
    Never,
    /// group as long as something is pending (flushes only when the queue
    /// runs dry / at shutdown) — bounded to `n` logical batches per commit
    UpTo(usize),
    /// alternate: group two, then one, ...
    Alternate,
    /// answers "more" only the first time it is asked about a physical batch
    /// in a given state (linger-time / pressure based stores change their
    /// mind between two questions about the same batch)
    FirstAskOnly,
}

#[derive(Default, Debug, Clone, PartialEq, Eq)]
pub struct Content {
    pub wide: BTreeMap<(u128, Vec<u8>), Vec<u8>>,
    pub sets: BTreeMap<(u128, Vec<u8>), BTreeSet<Vec<u8>>>,
}

impl Content {
    pub fn apply(&mut self, op: &Op) {
        match op {
            Op::Put(c, k, v) => {
                self.wide.insert((*c, k.clone()), v.clone());
            }
            Op::Del(c, k) => {
                self.wide.remove(&(*c, k.clone()));
            }
            Op::Ins(c, k, e) => {
                self.sets.entry((*c, k.clone())).or_default().insert(e.clone());
            }
            Op::Rem(c, k, e) => {
                if let Some(s) = self.sets.get_mut(&(*c, k.clone())) {
                    s.remove(e);
                    if s.is_empty() {
                        self.sets.remove(&(*c, k.clone()));
                    }
                }
            }
        }
    }

    pub fn from_log(log: &[Vec<Op>]) -> Self {
        let mut c = Self::default();
        for b in log {
            for op in b {
                c.apply(op);
            }
        }
        c
    }
}

#[derive(Debug)]
pub struct State {
    pub content: Content,
    /// ordered physical commit log
    pub log: Vec<Vec<Op>>,
    /// number of logical batches (serialization buffers) per physical commit
    pub group_sizes: Vec<usize>,
    pub grouping: Grouping,
    pub reads: u64,
    /// yield at reads / commits (inside shuttle)
    pub yield_io: bool,
    /// harness gate: while set, physical commits wait (the committer thread
    /// yields), so everything written stays in the staging / pinned state
    pub hold: bool,
    alt_toggle: bool,
}

impl State {
    pub fn new(grouping: Grouping, yield_io: bool) -> Self {
        Self {
            content: Content::default(),
            log: Vec::new(),
            group_sizes: Vec::new(),
            grouping,
            reads: 0,
            yield_io,
            hold: false,
            alt_toggle: false,
        }
    }

    pub fn from_prefix(
        log: &[Vec<Op>],
        grouping: Grouping,
        yield_io: bool,
    ) -> Self {
        let mut s = Self::new(grouping, yield_io);
        s.content = Content::from_log(log);
        s
    }
}

pub type Shared = Arc<Mutex<State>>;

pub fn new_state(grouping: Grouping, yield_io: bool) -> Shared {
    Arc::new(Mutex::new(State::new(grouping, yield_io)))
}

#[derive(Clone)]
pub struct MemKv {
    pub st: Shared,
    pub plugin: Arc<Plugin>,
}

impl std::fmt::Debug for MemKv {
    fn fmt(&self, f: &mut std::fmt::Formatter<'_>) -> std::fmt::Result {
        f.write_str("MemKv")
    }
}

pub struct Buf {
    ops: Vec<Op>,
    plugin: Arc<Plugin>,
}

pub struct Batch {
    ops: Vec<Op>,
    consumed: usize,
    db: MemKv,
    /// `consumed` at the time of the last `should_write_more` question
    asked_at: std::sync::atomic::AtomicUsize,
}

pub fn enc<T: Encode>(p: &Plugin, v: &T) -> Vec<u8> {
    let mut b = Vec::new();
    PostcardEncoder::new(&mut b).encode(v, p).unwrap();
    b
}

fn wkey<W: WideColumn, C: WideColumnValue<W>>(p: &Plugin, k: &W::Key) -> Vec<u8> {
    // discriminant, then a separator-free length-prefixed key
    let d = enc(p, &C::discriminant());
    let kk = enc(p, k);
    let mut b = Vec::with_capacity(d.len() + kk.len() + 8);
    b.extend((d.len() as u32).to_le_bytes());
    b.extend(d);
    b.extend(kk);
    b
}

macro_rules! ser_impl {
    ($ops:ident, $plugin:expr) => {
        fn put<W: WideColumn, C: WideColumnValue<W>>(
            &mut self,
            key: &W::Key,
            value: &C,
        ) {
            let p = $plugin(self);
            let op = Op::Put(
                W::STABLE_TYPE_ID.as_u128(),
                wkey::<W, C>(&p, key),
                enc(&p, value),
            );
            self.$ops.push(op);
        }

        fn delete<W: WideColumn, C: WideColumnValue<W>>(
            &mut self,
            key: &W::Key,
        ) {
            let p = $plugin(self);
            let op =
                Op::Del(W::STABLE_TYPE_ID.as_u128(), wkey::<W, C>(&p, key));
            self.$ops.push(op);
        }

        fn insert_member<C: KeyOfSetColumn>(
            &mut self,
            key: &C::Key,
            value: &C::Element,
        ) {
            let p = $plugin(self);
            let op = Op::Ins(
                C::STABLE_TYPE_ID.as_u128(),
                enc(&p, key),
                enc(&p, value),
            );
            self.$ops.push(op);
        }

        fn delete_member<C: KeyOfSetColumn>(
            &mut self,
            key: &C::Key,
            value: &C::Element,
        ) {
            let p = $plugin(self);
            let op = Op::Rem(
                C::STABLE_TYPE_ID.as_u128(),
                enc(&p, key),
                enc(&p, value),
            );
            self.$ops.push(op);
        }
    };
}

impl Buf {
    /// the byte-level operations recorded so far
    pub fn ops(&self) -> &[Op] { &self.ops }
}

impl SerializationBuffer for Buf {
    ser_impl!(ops, |s: &Buf| s.plugin.clone());
}

fn io_point(st: &Shared) {
    let y = st.lock().unwrap().yield_io;
    if y && qbice_verif_rt::in_shuttle() {
        shuttle::thread::yield_now();
    }
}

impl WriteBatch for Batch {
    type SerializationBuffer = Buf;

    ser_impl!(ops, |s: &Batch| s.db.plugin.clone());

    fn consume_serialization_buffer(&mut self, b: Buf) {
        self.ops.extend(b.ops);
        self.consumed += 1;
    }

    fn commit(self) {
        io_point(&self.db.st);
        while self.db.st.lock().unwrap().hold {
            shuttle::thread::yield_now();
        }
        let mut st = self.db.st.lock().unwrap();
        for op in &self.ops {
            st.content.apply(op);
        }
        st.log.push(self.ops);
        st.group_sizes.push(self.consumed);
        drop(st);
        qbice_verif_rt::events::event("memkv_commit");
        if std::env::var("VH_TRACE").is_ok() {
            eprintln!("  [memkv] commit");
        }
    }

    fn should_write_more(&self) -> bool {
        let mut st = self.db.st.lock().unwrap();
        match st.grouping {
            Grouping::Never => false,
            Grouping::UpTo(n) => self.consumed < n,
            Grouping::FirstAskOnly => {
                if self.consumed >= 2 {
                    return false;
                }
                let prev = self.asked_at.swap(self.consumed, std::sync::atomic::Ordering::SeqCst);
                prev != self.consumed
            }
            Grouping::Alternate => {
                if self.consumed >= 2 {
                    return false;
                }
                if self.consumed == 1 {
                    st.alt_toggle = !st.alt_toggle;
                    st.alt_toggle
                } else {
                    true
                }
            }
        }
    }
}

pub struct Scan<C: KeyOfSetColumn> {
    items: std::vec::IntoIter<Vec<u8>>,
    plugin: Arc<Plugin>,
    _m: std::marker::PhantomData<fn() -> C>,
}

impl<C: KeyOfSetColumn> Iterator for Scan<C> {
    type Item = C::Element;

    fn next(&mut self) -> Option<C::Element> {
        let b = self.items.next()?;
        Some(
            PostcardDecoder::new(std::io::Cursor::new(b))
                .decode::<C::Element>(&self.plugin)
                .unwrap(),
        )
    }
}

impl KvDatabase for MemKv {
    type WriteBatch = Batch;
    type SerializationBuffer = Buf;
    type ScanMemberIterator<C: KeyOfSetColumn> = Scan<C>;

    fn get_wide_column<W: WideColumn, C: WideColumnValue<W>>(
        &self,
        key: &W::Key,
    ) -> Option<C> {
        let v = {
            let mut st = self.st.lock().unwrap();
            st.reads += 1;
            st.content
                .wide
                .get(&(W::STABLE_TYPE_ID.as_u128(), wkey::<W, C>(&self.plugin, key)))
                .cloned()
        };
        if std::env::var("VH_TRACE").is_ok() {
            eprintln!("  [memkv] read wide -> {:?} (suspending)", v.as_ref().map(|b| b.len()));
        }
        // the value was read from the store *before* this point: a write
        // that commits while the reader is suspended here is not seen
        io_point(&self.st);
        if std::env::var("VH_TRACE").is_ok() {
            eprintln!("  [memkv] read wide resumes");
        }
        v.map(|b| {
            PostcardDecoder::new(std::io::Cursor::new(b))
                .decode::<C>(&self.plugin)
                .unwrap()
        })
    }

    fn scan_members<C: KeyOfSetColumn>(&self, key: &C::Key) -> Scan<C> {
        let items: Vec<Vec<u8>> = {
            let mut st = self.st.lock().unwrap();
            st.reads += 1;
            st.content
                .sets
                .get(&(C::STABLE_TYPE_ID.as_u128(), enc(&*self.plugin, key)))
                .map(|s| s.iter().cloned().collect())
                .unwrap_or_default()
        };
        io_point(&self.st);
        Scan {
            items: items.into_iter(),
            plugin: self.plugin.clone(),
            _m: std::marker::PhantomData,
        }
    }

    fn write_batch(&self) -> Batch {
        Batch { ops: vec![], consumed: 0, db: self.clone(), asked_at: std::sync::atomic::AtomicUsize::new(usize::MAX) }
    }

    fn serialization_buffer(&self) -> Buf {
        Buf { ops: vec![], plugin: self.plugin.clone() }
    }
}

#[derive(Debug, Clone)]
pub struct MemKvFactory(pub Shared);

impl KvDatabaseFactory for MemKvFactory {
    type KvDatabase = MemKv;
    type Error = std::convert::Infallible;

    fn open(self, plugin: Plugin) -> Result<MemKv, Self::Error> {
        Ok(MemKv { st: self.0, plugin: Arc::new(plugin) })
    }
}
