//! PQ — program-interpreting queries.
//!
//! Five query key types (input, external input, normal, firewall,
//! projection); one executor per computed type interprets a shared `Program`
//! table and logs every activation and every dependency read.

use std::sync::{Arc, Mutex};

use qbice::{
    Decode, Encode, ExecutionStyle, Executor, Identifiable, Query, StableHash,
    TrackedEngine, config::Config,
};

pub type Val = u8;

pub const SCC_N: Val = 7;
pub const SCC_F: Val = 8;
pub const SCC_P: Val = 9;

macro_rules! key {
    ($name:ident) => {
        #[derive(
            Debug,
            Clone,
            Copy,
            PartialEq,
            Eq,
            PartialOrd,
            Ord,
            Hash,
            StableHash,
            Encode,
            Decode,
            Identifiable,
        )]
        pub struct $name(pub u8);

        impl Query for $name {
            type Value = Val;
        }
    };
}

key!(QIn);
key!(QX);
key!(QN);
key!(QF);
key!(QP);

/// "wide" caller: 65536 keys, each reads computed node 0 (fan-in beyond the
/// 1024-element threshold of the cached key-to-set map)
#[derive(
    Debug, Clone, Copy, PartialEq, Eq, PartialOrd, Ord, Hash, StableHash, Encode, Decode, Identifiable,
)]
pub struct QW(pub u16);

impl Query for QW {
    type Value = Val;
}

thread_local! {
    /// completed activations of `QW` executors (one shuttle execution runs on
    /// one OS thread)
    pub static WIDE_RUNS: std::cell::Cell<u64> = const { std::cell::Cell::new(0) };
}

#[derive(Clone, Copy, Debug, PartialEq, Eq, Hash, PartialOrd, Ord)]
pub enum Dep {
    In(u8),
    X(u8),
    C(u8),
}

#[derive(Clone, Debug, PartialEq, Eq, Hash, PartialOrd, Ord)]
pub enum Body {
    /// constant, no dependency
    Lit(Val),
    Id(Dep),
    /// min(v, 1): absorbs changes between 1 and 2
    Sat(Dep),
    Add(Dep, Dep),
    /// data-dependent read set
    If(Dep, Dep, Dep),
    /// all dependencies awaited concurrently (join_all)
    JoinAdd(Vec<Dep>),
    /// unordered callee group
    UnordAdd(Vec<Dep>),
    /// reads the dependency, ignores its value
    ConstRead(Dep),
    /// a partial function: returns the dependency's value, but panics when it
    /// is 2 (outside the executor's domain). A from-scratch evaluation only
    /// runs it where the program demands it.
    Partial(Dep),
    /// (base + sum of the dependencies whose guard input is non-zero or
    /// absent) % 5 — used for cyclic programs (C06)
    Edges(Val, Vec<(Option<u8>, Dep)>),
}

impl Body {
    pub fn deps(&self) -> Vec<Dep> {
        match self {
            Body::Lit(_) => vec![],
            Body::Id(d) | Body::Sat(d) | Body::ConstRead(d) | Body::Partial(d) => vec![*d],
            Body::Add(a, b) => vec![*a, *b],
            Body::If(c, a, b) => vec![*c, *a, *b],
            Body::JoinAdd(v) | Body::UnordAdd(v) => v.clone(),
            Body::Edges(_, es) => {
                let mut v: Vec<Dep> = Vec::new();
                for (g, d) in es {
                    if let Some(g) = g {
                        v.push(Dep::In(*g));
                    }
                    v.push(*d);
                }
                v
            }
        }
    }
}

#[derive(Clone, Copy, Debug, PartialEq, Eq, Hash, PartialOrd, Ord)]
pub enum Style {
    N,
    F,
    P,
}

#[derive(Clone, Debug, PartialEq, Eq, Hash, PartialOrd, Ord)]
pub struct Node {
    pub style: Style,
    pub body: Body,
}

#[derive(Clone, Debug, PartialEq, Eq, Hash, Default, PartialOrd, Ord)]
pub struct Program {
    pub nodes: Vec<Node>,
}

impl Program {
    /// The engine contract: a projection may only read firewalls/projections.
    pub fn respects_projection_rule(&self) -> bool {
        self.nodes.iter().all(|n| {
            n.style != Style::P
                || n.body.deps().iter().all(|d| match d {
                    Dep::C(j) => {
                        matches!(self.nodes[*j as usize].style, Style::F | Style::P)
                    }
                    _ => false,
                })
        })
    }

    pub fn describe(&self) -> String {
        self.nodes
            .iter()
            .enumerate()
            .map(|(i, n)| format!("{:?}{}={:?}", n.style, i, n.body))
            .collect::<Vec<_>>()
            .join("; ")
    }
}

/// One key of the universe.
#[derive(Clone, Copy, Debug, PartialEq, Eq, Hash, PartialOrd, Ord)]
pub enum Key {
    In(u8),
    X(u8),
    C(u8),
}

#[derive(Clone, Debug, PartialEq, Eq)]
pub enum Event {
    /// marker: the first executor is being unwound; the payload is the
    /// number of callee registrations the engine had made by then
    /// (`qbice_verif_rt::events::edge_count`)
    FirstUnwind { edges: usize },
    Enter { key: Key, act: usize, epoch_tag: u64 },
    Read { act: usize, dep: Dep, val: Val },
    Exit { key: Key, act: usize, val: Option<Val> },
    /// executor of `key` is about to request `dep` (logged before the await)
    Req { key: Key, dep: Dep },
}

#[derive(Debug, Default)]
pub struct LogInner {
    pub events: Vec<Event>,
    pub next_act: usize,
    /// keys currently inside their executor
    pub active: Vec<Key>,
    /// set when two activations of one key overlapped
    pub overlap: Vec<Key>,
    /// activation counter per computed node / external input (for faults)
    pub runs: std::collections::HashMap<Key, usize>,
}

#[derive(Clone, Copy, Debug, PartialEq, Eq)]
pub struct Fault {
    pub key: Key,
    /// panic on the k-th activation (1-based) of `key`
    pub on_run: usize,
    /// 0 = panic before any read, n = panic after the n-th read
    pub after_reads: usize,
}

#[derive(Debug)]
pub struct Shared {
    pub program: Program,
    pub log: Mutex<LogInner>,
    /// the "world" external inputs read
    pub world: Mutex<[Val; 4]>,
    /// harness-maintained tag written into Enter events (e.g. session count)
    pub epoch_tag: Mutex<u64>,
    pub fault: Mutex<Option<Fault>>,
    /// yield inside executors between reads (more interleavings)
    pub yield_in_exec: bool,
    /// nodes whose `Edges` body reads all enabled targets concurrently
    /// (join_all) instead of one after the other
    pub join_nodes: Mutex<Vec<u8>>,
    /// nodes whose `Edges` body reads every enabled target in a spawned
    /// helper task (own clone of the tracked engine) and joins the helpers
    pub spawn_nodes: Mutex<Vec<u8>>,
    /// like `spawn_nodes`, but the executor returns its base value without
    /// joining: the helpers finish after the executor has returned
    pub detach_nodes: Mutex<Vec<u8>>,
}

pub const FAULT_MSG: &str = "injected executor fault";
pub const PARTIAL_MSG: &str = "executor called outside its domain";

impl Shared {
    pub fn new(program: Program) -> Arc<Self> {
        Arc::new(Self {
            program,
            log: Mutex::new(LogInner::default()),
            world: Mutex::new([0; 4]),
            epoch_tag: Mutex::new(0),
            fault: Mutex::new(None),
            yield_in_exec: false,
            join_nodes: Mutex::new(Vec::new()),
            spawn_nodes: Mutex::new(Vec::new()),
            detach_nodes: Mutex::new(Vec::new()),
        })
    }

    pub fn new_yielding(program: Program) -> Arc<Self> {
        Arc::new(Self {
            program,
            log: Mutex::new(LogInner::default()),
            world: Mutex::new([0; 4]),
            epoch_tag: Mutex::new(0),
            fault: Mutex::new(None),
            yield_in_exec: true,
            join_nodes: Mutex::new(Vec::new()),
            spawn_nodes: Mutex::new(Vec::new()),
            detach_nodes: Mutex::new(Vec::new()),
        })
    }

    pub fn take_events(&self) -> Vec<Event> {
        std::mem::take(&mut self.log.lock().unwrap().events)
    }

    pub fn take_overlaps(&self) -> Vec<Key> {
        std::mem::take(&mut self.log.lock().unwrap().overlap)
    }

    fn enter(self: &Arc<Self>, key: Key) -> Activation {
        let tag = *self.epoch_tag.lock().unwrap();
        let mut l = self.log.lock().unwrap();
        let act = l.next_act;
        l.next_act += 1;
        if l.active.contains(&key) {
            l.overlap.push(key);
        }
        l.active.push(key);
        let run = {
            let r = l.runs.entry(key).or_insert(0);
            *r += 1;
            *r
        };
        l.events.push(Event::Enter { key, act, epoch_tag: tag });
        Activation { sh: self.clone(), key, act, val: None, run, reads: 0 }
    }
}

pub struct Activation {
    sh: Arc<Shared>,
    key: Key,
    act: usize,
    val: Option<Val>,
    run: usize,
    reads: usize,
}

impl Activation {
    fn maybe_fault(&self) {
        let f = *self.sh.fault.lock().unwrap();
        if let Some(f) = f {
            // persistent from run `on_run` on: executors are pure, a panic
            // is reproduced by every re-execution until the harness clears it
            if f.key == self.key
                && self.run >= f.on_run
                && f.after_reads == self.reads
            {
                panic!("{FAULT_MSG}");
            }
        }
    }
}

impl Drop for Activation {
    fn drop(&mut self) {
        let mut l = self.sh.log.lock().unwrap();
        if let Some(p) = l.active.iter().position(|k| *k == self.key) {
            l.active.remove(p);
        }
        if self.val.is_none() && !l.events.iter().any(|e| matches!(e, Event::FirstUnwind { .. })) {
            l.events.push(Event::FirstUnwind { edges: qbice_verif_rt::events::edge_count() });
        }
        l.events.push(Event::Exit { key: self.key, act: self.act, val: self.val });
    }
}

async fn read<C: Config>(
    act: &mut Activation,
    eng: &TrackedEngine<C>,
    d: Dep,
) -> Val {
    let sh = act.sh.clone();
    sh.log.lock().unwrap().events.push(Event::Req { key: act.key, dep: d });
    let v = read_raw(&sh, eng, d).await;
    sh.log.lock().unwrap().events.push(Event::Read { act: act.act, dep: d, val: v });
    act.reads += 1;
    act.maybe_fault();
    if sh.yield_in_exec {
        qbice_verif_rt::tokio::task::yield_now().await;
    }
    v
}

async fn read_raw<C: Config>(
    sh: &Arc<Shared>,
    eng: &TrackedEngine<C>,
    d: Dep,
) -> Val {
    match d {
        Dep::In(i) => eng.query(&QIn(i)).await,
        Dep::X(i) => eng.query(&QX(i)).await,
        Dep::C(j) => match sh.program.nodes[j as usize].style {
            Style::N => eng.query(&QN(j)).await,
            Style::F => eng.query(&QF(j)).await,
            Style::P => eng.query(&QP(j)).await,
        },
    }
}

/// Query a key from the outside (user level).
pub async fn query_key<C: Config>(
    sh: &Arc<Shared>,
    eng: &TrackedEngine<C>,
    k: Key,
) -> Val {
    match k {
        Key::In(i) => eng.query(&QIn(i)).await,
        Key::X(i) => eng.query(&QX(i)).await,
        Key::C(j) => read_raw(sh, eng, Dep::C(j)).await,
    }
}

async fn run_body<C: Config>(
    sh: &Arc<Shared>,
    k: u8,
    eng: &TrackedEngine<C>,
) -> Val {
    let mut act = sh.enter(Key::C(k));
    act.maybe_fault();
    let body = sh.program.nodes[k as usize].body.clone();
    let v = match body {
        Body::Lit(v) => v,
        Body::Id(d) => read(&mut act, eng, d).await,
        Body::Sat(d) => read(&mut act, eng, d).await.min(1),
        Body::Add(a, b) => {
            let x = read(&mut act, eng, a).await;
            let y = read(&mut act, eng, b).await;
            (x + y) % 3
        }
        Body::If(c, a, b) => {
            if read(&mut act, eng, c).await != 0 {
                read(&mut act, eng, a).await
            } else {
                read(&mut act, eng, b).await
            }
        }
        Body::ConstRead(d) => {
            let _ = read(&mut act, eng, d).await;
            0
        }
        Body::Partial(d) => {
            let v = read(&mut act, eng, d).await;
            if v == 2 {
                panic!("{PARTIAL_MSG}");
            }
            v
        }
        Body::Edges(base, es)
            if sh.spawn_nodes.lock().unwrap().contains(&k)
                || sh.detach_nodes.lock().unwrap().contains(&k) =>
        {
            let detach = sh.detach_nodes.lock().unwrap().contains(&k);
            let mut on = Vec::new();
            for (g, d) in es {
                let e = match g {
                    Some(g) => read(&mut act, eng, Dep::In(g)).await != 0,
                    None => true,
                };
                if e {
                    on.push(d);
                }
            }
            let mut hs = Vec::new();
            for d in &on {
                let (sh2, eng2, d) = (sh.clone(), eng.clone(), *d);
                hs.push(qbice_verif_rt::tokio::spawn(async move {
                    sh2.log.lock().unwrap().events.push(Event::Req { key: Key::C(k), dep: d });
                    read_raw(&sh2, &eng2, d).await
                }));
            }
            let mut s = base;
            if !detach {
                for (d, h) in on.iter().zip(hs) {
                    match h.await {
                        Ok(v) => {
                            sh.log.lock().unwrap().events.push(Event::Read { act: act.act, dep: *d, val: v });
                            act.reads += 1;
                            s = (s + v) % 5;
                        }
                        // the helper was unwound (cyclic read): so is this executor
                        Err(e) => match e.try_into_panic() {
                            Ok(p) => std::panic::resume_unwind(p),
                            Err(_) => panic!("helper task was cancelled"),
                        },
                    }
                }
            }
            s
        }
        Body::Edges(base, es) if sh.join_nodes.lock().unwrap().contains(&k) => {
            let mut on = Vec::new();
            for (g, d) in es {
                let e = match g {
                    Some(g) => read(&mut act, eng, Dep::In(g)).await != 0,
                    None => true,
                };
                if e {
                    on.push(d);
                }
            }
            let vals = futures::future::join_all(on.iter().map(|d| async move {
                sh.log.lock().unwrap().events.push(Event::Req { key: Key::C(k), dep: *d });
                read_raw(sh, eng, *d).await
            }))
            .await;
            let mut s = base;
            for (d, v) in on.iter().zip(vals) {
                sh.log.lock().unwrap().events.push(Event::Read { act: act.act, dep: *d, val: v });
                act.reads += 1;
                s = (s + v) % 5;
            }
            s
        }
        Body::Edges(base, es) => {
            let mut s = base;
            for (g, d) in es {
                let on = match g {
                    Some(g) => read(&mut act, eng, Dep::In(g)).await != 0,
                    None => true,
                };
                if on {
                    s = (s + read(&mut act, eng, d).await) % 5;
                }
            }
            s
        }
        Body::JoinAdd(ds) => {
            let vals = futures::future::join_all(
                ds.iter().map(|d| read_raw(sh, eng, *d)),
            )
            .await;
            let mut s = 0u8;
            for (d, v) in ds.iter().zip(vals) {
                sh.log.lock().unwrap().events.push(Event::Read {
                    act: act.act,
                    dep: *d,
                    val: v,
                });
                act.reads += 1;
                act.maybe_fault();
                s = (s + v) % 3;
            }
            s
        }
        Body::UnordAdd(ds) => {
            unsafe { eng.start_unordered_callee_group() };
            let vals = futures::future::join_all(
                ds.iter().map(|d| read_raw(sh, eng, *d)),
            )
            .await;
            unsafe { eng.end_unordered_callee_group() };
            let mut s = 0u8;
            for (d, v) in ds.iter().zip(vals) {
                sh.log.lock().unwrap().events.push(Event::Read {
                    act: act.act,
                    dep: *d,
                    val: v,
                });
                act.reads += 1;
                act.maybe_fault();
                s = (s + v) % 3;
            }
            s
        }
    };
    act.val = Some(v);
    v
}

macro_rules! exec {
    ($name:ident, $q:ident, $style:expr, $scc:expr) => {
        #[derive(Debug)]
        pub struct $name(pub Arc<Shared>);

        impl<C: Config> Executor<$q, C> for $name {
            async fn execute(
                &self,
                query: &$q,
                engine: &TrackedEngine<C>,
            ) -> Val {
                run_body(&self.0, query.0, engine).await
            }

            fn execution_style() -> ExecutionStyle { $style }

            fn scc_value() -> Val { $scc }
        }
    };
}

exec!(ExecN, QN, ExecutionStyle::Normal, SCC_N);
exec!(ExecF, QF, ExecutionStyle::Firewall, SCC_F);
exec!(ExecP, QP, ExecutionStyle::Projection, SCC_P);

#[derive(Debug)]
pub struct ExecW(pub Arc<Shared>);

impl<C: Config> Executor<QW, C> for ExecW {
    async fn execute(&self, _query: &QW, engine: &TrackedEngine<C>) -> Val {
        let v = match self.0.program.nodes[0].style {
            Style::N => engine.query(&QN(0)).await,
            Style::F => engine.query(&QF(0)).await,
            Style::P => engine.query(&QP(0)).await,
        };
        WIDE_RUNS.with(|c| c.set(c.get() + 1));
        v
    }
}

#[derive(Debug)]
pub struct ExecX(pub Arc<Shared>);

impl<C: Config> Executor<QX, C> for ExecX {
    async fn execute(&self, query: &QX, _engine: &TrackedEngine<C>) -> Val {
        let mut act = self.0.enter(Key::X(query.0));
        act.maybe_fault();
        let v = self.0.world.lock().unwrap()[query.0 as usize];
        act.val = Some(v);
        v
    }

    fn execution_style() -> ExecutionStyle { ExecutionStyle::ExternalInput }
}

pub fn register_all<C: Config>(eng: &mut qbice::Engine<C>, sh: &Arc<Shared>) {
    eng.register_executor::<QN, _>(Arc::new(ExecN(sh.clone())));
    eng.register_executor::<QF, _>(Arc::new(ExecF(sh.clone())));
    eng.register_executor::<QP, _>(Arc::new(ExecP(sh.clone())));
    eng.register_executor::<QX, _>(Arc::new(ExecX(sh.clone())));
    eng.register_executor::<QW, _>(Arc::new(ExecW(sh.clone())));
}
