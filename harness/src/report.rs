//! Evidence / verdict plumbing shared by all checks.

use std::{collections::BTreeMap, path::PathBuf, time::Instant};

use serde_json::{Value, json};

#[derive(Clone, Debug)]
pub struct Violation {
    /// short stable description of what failed
    pub what: String,
    /// machine-checkable facts about the failing case, matched against the
    /// `trigger` of known-findings entries
    pub tags: Vec<String>,
    /// everything needed to re-run the failing case
    pub replay: Value,
}

#[derive(Debug)]
pub struct Report {
    pub property: &'static str,
    pub tier: String,
    pub seed: u64,
    pub level: &'static str,
    pub started: Instant,
    pub evaluations: u64,
    pub distinct_nontrivial: u64,
    pub rule: String,
    pub samples: Vec<Value>,
    pub states: Option<u64>,
    pub transitions: Option<u64>,
    pub traces_validated: Option<u64>,
    pub exhaustive: bool,
    pub caps: Vec<String>,
    pub extra: BTreeMap<String, Value>,
    pub assumptions: Vec<String>,
    pub violations: Vec<Violation>,
    pub machinery_errors: Vec<String>,
}

pub fn tier() -> String {
    std::env::var("VERIF_TIER").unwrap_or_else(|_| "quick".to_string())
}

pub fn seed() -> u64 {
    std::env::var("VERIF_SEED").ok().and_then(|s| s.parse().ok()).unwrap_or(0)
}

pub fn threads() -> usize {
    std::env::var("VERIF_THREADS")
        .ok()
        .and_then(|s| s.parse().ok())
        .unwrap_or_else(|| {
            std::thread::available_parallelism().map_or(8, |n| n.get()).min(16)
        })
}

pub fn verif_dir() -> PathBuf {
    PathBuf::from(
        std::env::var("VERIF_DIR").unwrap_or_else(|_| "/verif".to_string()),
    )
}

impl Report {
    pub fn new(property: &'static str, level: &'static str) -> Self {
        Self {
            property,
            tier: tier(),
            seed: seed(),
            level,
            started: Instant::now(),
            evaluations: 0,
            distinct_nontrivial: 0,
            rule: String::new(),
            samples: Vec::new(),
            states: None,
            transitions: None,
            traces_validated: None,
            exhaustive: true,
            caps: Vec::new(),
            extra: BTreeMap::new(),
            assumptions: Vec::new(),
            violations: Vec::new(),
            machinery_errors: Vec::new(),
        }
    }

    pub fn is_thorough(&self) -> bool { self.tier == "thorough" }

    pub fn sample(&mut self, v: Value) {
        if self.samples.len() < 6 {
            self.samples.push(v);
        }
    }

    pub fn cap(&mut self, c: impl Into<String>) {
        self.exhaustive = false;
        let c = c.into();
        if !self.caps.contains(&c) && self.caps.len() < 20 {
            self.caps.push(c);
        }
    }

    pub fn violation(&mut self, v: Violation) {
        // at most 100 per tag class (a frequent known finding must never
        // crowd out a violation of another kind), 5000 in total
        let same = self.violations.iter().filter(|w| w.tags == v.tags).count();
        if same < 100 && self.violations.len() < 5000 {
            self.violations.push(v);
        }
    }

    /// Writes evidence, prints verdict lines, returns the process exit code.
    pub fn finish(mut self) -> i32 {
        let dir = verif_dir();
        let known = load_known(&dir);

        let mut known_hits: BTreeMap<String, (String, usize)> = BTreeMap::new();
        let mut unknown: Vec<&Violation> = Vec::new();
        for v in &self.violations {
            let hit = known.iter().find(|k| {
                (k.property == self.property
                    || k.also.iter().any(|p| p == self.property))
                    && k.status == "known"
                    && v.tags.iter().any(|t| t == &k.trigger)
            });
            match hit {
                Some(k) => {
                    let e = known_hits
                        .entry(k.id.clone())
                        .or_insert((k.text.clone(), 0));
                    e.1 += 1;
                }
                None => unknown.push(v),
            }
        }

        if std::env::var("VERIF_VERBOSE").is_ok() {
            for v in &unknown {
                eprintln!("  [all] {}", v.what);
            }
        }
        if std::env::var("VERIF_VERBOSE").as_deref() == Ok("2") {
            for v in &self.violations {
                eprintln!("  [tagged] {:?} {}", v.tags, v.what);
            }
        }
        // replay files for unknown violations (at most 5, deduplicated by
        // `what`)
        let mut lines = Vec::new();
        let mut seen_what = std::collections::BTreeSet::new();
        for v in &unknown {
            if !seen_what.insert(v.what.clone()) || seen_what.len() > 5 {
                continue;
            }
            let h = fxhash::hash64(&format!("{}{}", v.what, v.replay));
            let path = dir
                .join("replays")
                .join(format!("{}-{:016x}.json", self.property, h));
            let _ = std::fs::create_dir_all(dir.join("replays"));
            let body = json!({
                "property": self.property,
                "what": v.what,
                "tags": v.tags,
                "replay": v.replay,
            });
            let _ = std::fs::write(
                &path,
                serde_json::to_string_pretty(&body).unwrap(),
            );
            lines.push(format!(
                "VIOLATION property={} replay={}",
                self.property,
                path.display()
            ));
            eprintln!("  violation: {}", v.what);
        }

        for (id, (text, n)) in &known_hits {
            println!(
                "KNOWN-FINDING: property={} {} [{}; {} failing cases]",
                self.property, text, id, n
            );
        }
        for l in &lines {
            println!("{l}");
        }

        let wall = self.started.elapsed().as_secs_f64();
        let mut coverage = serde_json::Map::new();
        coverage.insert("evaluations".into(), json!(self.evaluations));
        coverage
            .insert("distinct_nontrivial".into(), json!(self.distinct_nontrivial));
        coverage.insert("rule".into(), json!(self.rule));
        if self.samples.is_empty() {
            self.samples.push(json!("no sample recorded"));
        }
        coverage.insert("samples".into(), json!(self.samples));
        if let Some(s) = self.states {
            coverage.insert("states".into(), json!(s));
        }
        if let Some(s) = self.transitions {
            coverage.insert("transitions".into(), json!(s));
        }
        if let Some(s) = self.traces_validated {
            coverage.insert("traces_validated_against_impl".into(), json!(s));
        }
        coverage.insert("exhaustive".into(), json!(self.exhaustive));
        coverage.insert("caps_hit".into(), json!(self.caps));
        coverage.insert(
            "known_findings_hit".into(),
            json!(
                known_hits
                    .iter()
                    .map(|(k, v)| json!({"id": k, "cases": v.1}))
                    .collect::<Vec<_>>()
            ),
        );
        for (k, v) in &self.extra {
            coverage.insert(k.clone(), v.clone());
        }

        let ev = json!({
            "property_id": self.property,
            "tier": if self.tier == "thorough" { "thorough" } else { "quick" },
            "seed": self.seed,
            "level": self.level,
            "coverage": Value::Object(coverage),
            "assumptions": self.assumptions,
            "wall_s": wall,
            "violations": unknown.len(),
        });
        let _ = std::fs::create_dir_all(dir.join("evidence"));
        let p = dir.join("evidence").join(format!("{}.json", self.property));
        if let Err(e) =
            std::fs::write(&p, serde_json::to_string_pretty(&ev).unwrap())
        {
            eprintln!("cannot write evidence {}: {e}", p.display());
            return 2;
        }

        eprintln!(
            "[{}] tier={} evaluations={} distinct={} exhaustive={} \
             violations={} known={} wall={:.1}s caps={:?}",
            self.property,
            self.tier,
            self.evaluations,
            self.distinct_nontrivial,
            self.exhaustive,
            unknown.len(),
            known_hits.len(),
            wall,
            self.caps
        );

        for m in &self.machinery_errors {
            eprintln!("MACHINERY ERROR: {m}");
        }
        // a violation was observed on a real execution and has its replay
        // file: it is reported as such even if some other part of the run
        // failed for a reason of the machinery's own
        if !unknown.is_empty() {
            return 1;
        }
        if !self.machinery_errors.is_empty() { 2 } else { 0 }
    }
}

#[derive(Debug, Clone)]
pub struct Known {
    pub property: String,
    /// further properties whose checks can run into the same defect
    pub also: Vec<String>,
    pub id: String,
    pub status: String,
    pub trigger: String,
    pub text: String,
}

pub fn load_known(dir: &std::path::Path) -> Vec<Known> {
    let p = dir.join("known_findings.json");
    let Ok(s) = std::fs::read_to_string(&p) else {
        return vec![];
    };
    let Ok(v) = serde_json::from_str::<Value>(&s) else {
        eprintln!("known_findings.json is not valid JSON");
        return vec![];
    };
    v["findings"]
        .as_array()
        .map(|a| {
            a.iter()
                .map(|e| Known {
                    property: e["property"].as_str().unwrap_or("").to_string(),
                    also: e["also"]
                        .as_array()
                        .map(|a| {
                            a.iter()
                                .filter_map(|x| x.as_str().map(str::to_string))
                                .collect()
                        })
                        .unwrap_or_default(),
                    id: e["id"].as_str().unwrap_or("").to_string(),
                    status: e["status"].as_str().unwrap_or("").to_string(),
                    trigger: e["trigger"].as_str().unwrap_or("").to_string(),
                    text: e["text"].as_str().unwrap_or("").to_string(),
                })
                .collect()
        })
        .unwrap_or_default()
}

pub fn sched_json(s: &crate::xplore::Sched) -> Value {
    json!(s.iter().map(|(a, b)| json!([a, b])).collect::<Vec<_>>())
}

pub fn sched_from_json(v: &Value) -> crate::xplore::Sched {
    v.as_array()
        .map(|a| {
            a.iter()
                .map(|p| {
                    (
                        p[0].as_u64().unwrap_or(0) as usize,
                        p[1].as_u64().unwrap_or(0) as usize,
                    )
                })
                .collect()
        })
        .unwrap_or_default()
}

/// Result of running one scenario in a child process (isolation: a double
/// panic / abort / OS-level hang in the code under test must not take the
/// whole check down, it is a finding for that scenario).
pub enum Child {
    Done(Value),
    Crashed(String),
    TimedOut,
    /// the child could not be started at all (not a verdict)
    Machinery(String),
}

pub fn run_child(args: &[String], timeout: std::time::Duration) -> Child {
    let exe = std::env::current_exe().expect("current exe");
    let mut a = vec!["child".to_string()];
    a.extend(args.iter().cloned());
    run_exe(&exe, &a, timeout)
}

/// Runs `exe args..` and returns the JSON after its last `RESULT ` line.
pub fn run_exe(exe: &std::path::Path, args: &[String], timeout: std::time::Duration) -> Child {
    use std::io::Read;
    let mut cmd = std::process::Command::new(exe);
    cmd.args(args);
    cmd.stdout(std::process::Stdio::piped());
    cmd.stderr(std::process::Stdio::piped());
    let mut ch = match cmd.spawn() {
        Ok(c) => c,
        // the harness binary itself is missing / not executable: machinery
        Err(e) => return Child::Machinery(format!("cannot spawn {}: {e}", exe.display())),
    };
    let mut so = ch.stdout.take().unwrap();
    let mut se = ch.stderr.take().unwrap();
    let t_out = std::thread::spawn(move || {
        let mut s = String::new();
        let _ = so.read_to_string(&mut s);
        s
    });
    let t_err = std::thread::spawn(move || {
        let mut s = Vec::new();
        let _ = se.read_to_end(&mut s);
        let s = String::from_utf8_lossy(&s).to_string();
        let n = s.len();
        s[n.saturating_sub(3000)..].to_string()
    });
    // A child is given up (and reported as hung) when
    //  - the wall-clock limit has passed AND it has not used any CPU for 30 s
    //    (blocked for good: a deadlock below the scheduler), or
    //  - it has used more CPU than `timeout` x hardware threads (spinning), or
    //  - ten times the wall-clock limit has passed.
    // A child that is merely slow because the machine is loaded keeps using
    // CPU and is not mistaken for a hang.
    let start = Instant::now();
    let pid = ch.id();
    let cpu_budget = timeout.as_secs_f64() * threads().max(1) as f64;
    let mut last_cpu = 0.0f64;
    let mut last_progress = Instant::now();
    let mut last_probe = Instant::now();
    let status = loop {
        match ch.try_wait() {
            Ok(Some(st)) => break Some(st),
            Ok(None) => {
                if last_probe.elapsed() > std::time::Duration::from_secs(1) {
                    last_probe = Instant::now();
                    let cpu = cpu_seconds(pid).unwrap_or(last_cpu);
                    if cpu > last_cpu + 0.05 {
                        last_cpu = cpu;
                        last_progress = Instant::now();
                    }
                    let wall = start.elapsed();
                    let stalled = last_progress.elapsed() > std::time::Duration::from_secs(30);
                    if (wall > timeout && stalled) || last_cpu > cpu_budget || wall > timeout * 10 {
                        let _ = ch.kill();
                        let _ = ch.wait();
                        break None;
                    }
                }
                std::thread::sleep(std::time::Duration::from_millis(20));
            }
            Err(_) => break None,
        }
    };
    let out = t_out.join().unwrap_or_default();
    let err = t_err.join().unwrap_or_default();
    let Some(st) = status else { return Child::TimedOut };
    if let Some(line) = out.lines().rev().find(|l| l.starts_with("RESULT ")) {
        if let Ok(v) = serde_json::from_str::<Value>(&line[7..]) {
            return Child::Done(v);
        }
    }
    Child::Crashed(format!(
        "child exited with {st} without a result; stderr tail: {}",
        err.lines().rev().take(12).collect::<Vec<_>>().into_iter().rev().collect::<Vec<_>>().join(" | ")
    ))
}

/// user + system CPU seconds used so far by process `pid` (all its threads)
fn cpu_seconds(pid: u32) -> Option<f64> {
    let s = std::fs::read_to_string(format!("/proc/{pid}/stat")).ok()?;
    // the command name (field 2) may contain spaces: split after its ')'
    let rest = &s[s.rfind(')')? + 1..];
    let f: Vec<&str> = rest.split_whitespace().collect();
    // rest[0] is field 3 (state); utime / stime are fields 14 / 15
    let ut: f64 = f.get(11)?.parse().ok()?;
    let st: f64 = f.get(12)?.parse().ok()?;
    Some((ut + st) / 100.0)
}

pub fn emit_child_result(v: &Value) {
    println!("RESULT {}", serde_json::to_string(v).unwrap());
}

/// Explore scenario `idx` of `check` in a child process; a crash or hang of
/// the child is recorded as a violation of that scenario.
pub fn explore_isolated(
    rep: &mut Report,
    check: &str,
    idx: usize,
    name: &str,
    thorough: bool,
) -> Option<crate::xplore::Summary> {
    let timeout =
        std::time::Duration::from_secs(if thorough { 2400 } else { 300 });
    match run_child(&[check.to_string(), idx.to_string()], timeout) {
        Child::Done(v) => Some(crate::xplore::Summary::from_json(&v)),
        Child::Crashed(m) => {
            rep.violation(Violation {
                what: format!(
                    "{name}: the process died while exploring this scenario \
                     (abort / double panic in the code under test): {m}"
                ),
                tags: vec!["process-aborted".into()],
                replay: json!({"check": check, "thorough": thorough,
                    "scenario_index": idx, "schedule": []}),
            });
            None
        }
        Child::Machinery(m) => {
            rep.machinery_errors.push(m);
            None
        }
        Child::TimedOut => {
            rep.violation(Violation {
                what: format!(
                    "{name}: exploration did not finish within {timeout:?} \
                     (OS-level hang of the code under test)"
                ),
                tags: vec!["hang".into()],
                replay: json!({"check": check, "thorough": thorough,
                    "scenario_index": idx, "schedule": []}),
            });
            None
        }
    }
}
