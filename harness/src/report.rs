//! Evidence / verdict plumbing shared by all checks.

use std::{collections::BTreeMap, path::PathBuf, time::Instant};

use serde_json::{Value, json};

#[derive(Clone, Debug)]
pub struct Violation {
    /// short stable description of what failed
    pub what: String,
    /// machine-checkable facts about the failing case, matched against the
    /// `trigger` of known-findings entries
    pub tags: Vec<String>,
    /// everything needed to re-run the failing case
    pub replay: Value,
}

#[derive(Debug)]
pub struct Report {
    pub property: &'static str,
    pub tier: String,
    pub seed: u64,
    pub level: &'static str,
    pub started: Instant,
    pub evaluations: u64,
    pub distinct_nontrivial: u64,
    pub rule: String,
    pub samples: Vec<Value>,
    pub states: Option<u64>,
    pub transitions: Option<u64>,
    pub traces_validated: Option<u64>,
    pub exhaustive: bool,
    pub caps: Vec<String>,
    pub extra: BTreeMap<String, Value>,
    pub assumptions: Vec<String>,
    pub violations: Vec<Violation>,
    pub machinery_errors: Vec<String>,
}

pub fn tier() -> String {
    std::env::var("VERIF_TIER").unwrap_or_else(|_| "quick".to_string())
}

pub fn seed() -> u64 {
    std::env::var("VERIF_SEED").ok().and_then(|s| s.parse().ok()).unwrap_or(0)
}

pub fn threads() -> usize {
    std::env::var("VERIF_THREADS")
        .ok()
        .and_then(|s| s.parse().ok())
        .unwrap_or_else(|| {
            std::thread::available_parallelism().map_or(8, |n| n.get()).min(16)
        })
}

pub fn verif_dir() -> PathBuf {
    PathBuf::from(
        std::env::var("VERIF_DIR").unwrap_or_else(|_| "/verif".to_string()),
    )
}

impl Report {
    pub fn new(property: &'static str, level: &'static str) -> Self {
        Self {
            property,
            tier: tier(),
            seed: seed(),
            level,
            started: Instant::now(),
            evaluations: 0,
            distinct_nontrivial: 0,
            rule: String::new(),
            samples: Vec::new(),
            states: None,
            transitions: None,
            traces_validated: None,
            exhaustive: true,
            caps: Vec::new(),
            extra: BTreeMap::new(),
            assumptions: Vec::new(),
            violations: Vec::new(),
            machinery_errors: Vec::new(),
        }
    }

    pub fn is_thorough(&self) -> bool { self.tier == "thorough" }

    pub fn sample(&mut self, v: Value) {
        if self.samples.len() < 6 {
            self.samples.push(v);
        }
    }

    pub fn cap(&mut self, c: impl Into<String>) {
        self.exhaustive = false;
        let c = c.into();
        if !self.caps.contains(&c) && self.caps.len() < 20 {
            self.caps.push(c);
        }
    }

    pub fn violation(&mut self, v: Violation) {
        if self.violations.len() < 500 {
            self.violations.push(v);
        }
    }

    /// Writes evidence, prints verdict lines, returns the process exit code.
    pub fn finish(mut self) -> i32 {
        let dir = verif_dir();
        let known = load_known(&dir);

        let mut known_hits: BTreeMap<String, (String, usize)> = BTreeMap::new();
        let mut unknown: Vec<&Violation> = Vec::new();
        for v in &self.violations {
            let hit = known.iter().find(|k| {
                k.property == self.property
                    && k.status == "known"
                    && v.tags.iter().any(|t| t == &k.trigger)
            });
            match hit {
                Some(k) => {
                    let e = known_hits
                        .entry(k.id.clone())
                        .or_insert((k.text.clone(), 0));
                    e.1 += 1;
                }
                None => unknown.push(v),
            }
        }

        if std::env::var("VERIF_VERBOSE").is_ok() {
            for v in &unknown {
                eprintln!("  [all] {}", v.what);
            }
        }
        // replay files for unknown violations (at most 5, deduplicated by
        // `what`)
        let mut lines = Vec::new();
        let mut seen_what = std::collections::BTreeSet::new();
        for v in &unknown {
            if !seen_what.insert(v.what.clone()) || seen_what.len() > 5 {
                continue;
            }
            let h = fxhash::hash64(&format!("{}{}", v.what, v.replay));
            let path = dir
                .join("replays")
                .join(format!("{}-{:016x}.json", self.property, h));
            let _ = std::fs::create_dir_all(dir.join("replays"));
            let body = json!({
                "property": self.property,
                "what": v.what,
                "tags": v.tags,
                "replay": v.replay,
            });
            let _ = std::fs::write(
                &path,
                serde_json::to_string_pretty(&body).unwrap(),
            );
            lines.push(format!(
                "VIOLATION property={} replay={}",
                self.property,
                path.display()
            ));
            eprintln!("  violation: {}", v.what);
        }

        for (id, (text, n)) in &known_hits {
            println!(
                "KNOWN-FINDING: property={} {} [{}; {} failing cases]",
                self.property, text, id, n
            );
        }
        for l in &lines {
            println!("{l}");
        }

        let wall = self.started.elapsed().as_secs_f64();
        let mut coverage = serde_json::Map::new();
        coverage.insert("evaluations".into(), json!(self.evaluations));
        coverage
            .insert("distinct_nontrivial".into(), json!(self.distinct_nontrivial));
        coverage.insert("rule".into(), json!(self.rule));
        if self.samples.is_empty() {
            self.samples.push(json!("no sample recorded"));
        }
        coverage.insert("samples".into(), json!(self.samples));
        if let Some(s) = self.states {
            coverage.insert("states".into(), json!(s));
        }
        if let Some(s) = self.transitions {
            coverage.insert("transitions".into(), json!(s));
        }
        if let Some(s) = self.traces_validated {
            coverage.insert("traces_validated_against_impl".into(), json!(s));
        }
        coverage.insert("exhaustive".into(), json!(self.exhaustive));
        coverage.insert("caps_hit".into(), json!(self.caps));
        coverage.insert(
            "known_findings_hit".into(),
            json!(
                known_hits
                    .iter()
                    .map(|(k, v)| json!({"id": k, "cases": v.1}))
                    .collect::<Vec<_>>()
            ),
        );
        for (k, v) in &self.extra {
            coverage.insert(k.clone(), v.clone());
        }

        let ev = json!({
            "property_id": self.property,
            "tier": if self.tier == "thorough" { "thorough" } else { "quick" },
            "seed": self.seed,
            "level": self.level,
            "coverage": Value::Object(coverage),
            "assumptions": self.assumptions,
            "wall_s": wall,
            "violations": unknown.len(),
        });
        let _ = std::fs::create_dir_all(dir.join("evidence"));
        let p = dir.join("evidence").join(format!("{}.json", self.property));
        if let Err(e) =
            std::fs::write(&p, serde_json::to_string_pretty(&ev).unwrap())
        {
            eprintln!("cannot write evidence {}: {e}", p.display());
            return 2;
        }

        eprintln!(
            "[{}] tier={} evaluations={} distinct={} exhaustive={} \
             violations={} known={} wall={:.1}s caps={:?}",
            self.property,
            self.tier,
            self.evaluations,
            self.distinct_nontrivial,
            self.exhaustive,
            unknown.len(),
            known_hits.len(),
            wall,
            self.caps
        );

        if !self.machinery_errors.is_empty() {
            for m in &self.machinery_errors {
                eprintln!("MACHINERY ERROR: {m}");
            }
            return 2;
        }
        if unknown.is_empty() { 0 } else { 1 }
    }
}

#[derive(Debug, Clone)]
pub struct Known {
    pub property: String,
    pub id: String,
    pub status: String,
    pub trigger: String,
    pub text: String,
}

pub fn load_known(dir: &std::path::Path) -> Vec<Known> {
    let p = dir.join("known_findings.json");
    let Ok(s) = std::fs::read_to_string(&p) else {
        return vec![];
    };
    let Ok(v) = serde_json::from_str::<Value>(&s) else {
        eprintln!("known_findings.json is not valid JSON");
        return vec![];
    };
    v["findings"]
        .as_array()
        .map(|a| {
            a.iter()
                .map(|e| Known {
                    property: e["property"].as_str().unwrap_or("").to_string(),
                    id: e["id"].as_str().unwrap_or("").to_string(),
                    status: e["status"].as_str().unwrap_or("").to_string(),
                    trigger: e["trigger"].as_str().unwrap_or("").to_string(),
                    text: e["text"].as_str().unwrap_or("").to_string(),
                })
                .collect()
        })
        .unwrap_or_default()
}

pub fn sched_json(s: &crate::xplore::Sched) -> Value {
    json!(s.iter().map(|(a, b)| json!([a, b])).collect::<Vec<_>>())
}

pub fn sched_from_json(v: &Value) -> crate::xplore::Sched {
    v.as_array()
        .map(|a| {
            a.iter()
                .map(|p| {
                    (
                        p[0].as_u64().unwrap_or(0) as usize,
                        p[1].as_u64().unwrap_or(0) as usize,
                    )
                })
                .collect()
        })
        .unwrap_or_default()
}
