//! Engine rigs (configs, construction) and the from-scratch reference model.

use std::sync::Arc;

use fxhash::FxBuildHasher;
use qbice::{
    Config, Engine, Identifiable, SetInputResult, TrackedEngine,
    serialize::Plugin,
    stable_hash::{SeededStableHasherBuilder, Sip128Hasher},
    storage::storage_engine::{
        db_backed::{Configuration, DbBacked, DbBackedFactory},
        in_memory::{InMemoryStorageEngine, InMemoryStorageEngineFactory},
    },
};

use crate::{
    memkv::{MemKv, MemKvFactory},
    pq::{self, Body, Dep, Event, Key, Program, QIn, QX, Shared, Style, Val},
    ystore::{YFactory, YStore},
};

#[derive(
    Debug, Clone, Copy, PartialEq, Eq, PartialOrd, Ord, Hash, Default, Identifiable,
)]
pub struct MemCfg;

impl Config for MemCfg {
    type StorageEngine = YStore<InMemoryStorageEngine>;
    type BuildStableHasher = SeededStableHasherBuilder<Sip128Hasher>;
    type BuildHasher = FxBuildHasher;
}

#[derive(
    Debug, Clone, Copy, PartialEq, Eq, PartialOrd, Ord, Hash, Default, Identifiable,
)]
pub struct DbCfg;

impl Config for DbCfg {
    type StorageEngine = YStore<DbBacked<MemKv>>;
    type BuildStableHasher = SeededStableHasherBuilder<Sip128Hasher>;
    type BuildHasher = FxBuildHasher;
}

pub const SEED: u64 = 0;

pub async fn new_mem_engine(sh: &Arc<Shared>) -> Arc<Engine<MemCfg>> {
    new_mem_engine_opt(sh, false).await
}

/// `yield_each_query`: the engine's own cooperative yield at every query.
pub async fn new_mem_engine_opt(
    sh: &Arc<Shared>,
    yield_each_query: bool,
) -> Arc<Engine<MemCfg>> {
    let opts = qbice::engine::EngineOptions::builder()
        .yield_frequency(if yield_each_query {
            qbice::engine::YieldFrequency::EveryNQuery(0)
        } else {
            qbice::engine::YieldFrequency::Never
        })
        .build();
    let mut e = Engine::<MemCfg>::new_with_options()
        .serialization_plugin(Plugin::default())
        .storage_engine_factory(YFactory(InMemoryStorageEngineFactory))
        .stable_hasher(SeededStableHasherBuilder::<Sip128Hasher>::new(SEED))
        .options(opts)
        .build()
        .await
        .unwrap();
    pq::register_all(&mut e, sh);
    Arc::new(e)
}

pub async fn new_db_engine(
    sh: &Arc<Shared>,
    store: crate::memkv::Shared,
    cache_capacity: u64,
    workers: usize,
) -> Arc<Engine<DbCfg>> {
    let f = DbBackedFactory::builder()
        .configuration(
            Configuration::builder()
                .cache_capacity(cache_capacity)
                .serialization_workers(workers)
                .build(),
        )
        .db_factory(MemKvFactory(store))
        .build();
    let mut e = Engine::<DbCfg>::new_with(
        Plugin::default(),
        YFactory(f),
        SeededStableHasherBuilder::<Sip128Hasher>::new(SEED),
    )
    .await
    .unwrap();
    pq::register_all(&mut e, sh);
    Arc::new(e)
}

// ---------------------------------------------------------------------------
// reference model
// ---------------------------------------------------------------------------

pub const NI: usize = 4;

#[derive(Clone, Debug, PartialEq, Eq, Hash, Default)]
pub struct Ref {
    pub inputs: [Option<Val>; NI],
    pub world: [Val; NI],
    /// value each external input had at its last legitimate execution
    pub xsnap: [Option<Val>; NI],
}

impl Ref {
    /// From-scratch value of a key for an *acyclic* program.
    /// `None` = undefined (reads an unset input / a never executed external).
    pub fn eval(&self, p: &Program, k: Key) -> Option<Val> {
        match k {
            Key::In(i) => self.inputs[i as usize],
            Key::X(i) => self.xsnap[i as usize],
            Key::C(j) => self.eval_body(p, &p.nodes[j as usize].body),
        }
    }

    fn dep(&self, p: &Program, d: Dep) -> Option<Val> {
        match d {
            Dep::In(i) => self.eval(p, Key::In(i)),
            Dep::X(i) => self.eval(p, Key::X(i)),
            Dep::C(j) => self.eval(p, Key::C(j)),
        }
    }

    fn eval_body(&self, p: &Program, b: &Body) -> Option<Val> {
        Some(match b {
            Body::Lit(v) => *v,
            Body::Id(d) => self.dep(p, *d)?,
            Body::Sat(d) => self.dep(p, *d)?.min(1),
            Body::Add(a, b) => (self.dep(p, *a)? + self.dep(p, *b)?) % 3,
            Body::If(c, a, b) => {
                if self.dep(p, *c)? != 0 {
                    self.dep(p, *a)?
                } else {
                    self.dep(p, *b)?
                }
            }
            Body::ConstRead(d) => {
                self.dep(p, *d)?;
                0
            }
            // outside its domain the executor panics: no value (the fault
            // propagates to every evaluation that demands this node)
            Body::Partial(d) => {
                let v = self.dep(p, *d)?;
                if v == 2 {
                    return None;
                }
                v
            }
            Body::JoinAdd(ds) | Body::UnordAdd(ds) => {
                let mut s = 0;
                for d in ds {
                    s = (s + self.dep(p, *d)?) % 3;
                }
                s
            }
            Body::Edges(base, es) => {
                let mut s = *base;
                for (g, d) in es {
                    let on = match g {
                        Some(g) => self.inputs[*g as usize]? != 0,
                        None => true,
                    };
                    if on {
                        s = (s + self.dep(p, *d)?) % 5;
                    }
                }
                s
            }
        })
    }

    /// The dependencies a from-scratch run of computed node `j` reads, with
    /// their values, in program order.
    pub fn reads(&self, p: &Program, j: u8) -> Option<Vec<(Dep, Val)>> {
        let b = &p.nodes[j as usize].body;
        let mut out = Vec::new();
        match b {
            Body::Lit(_) => {}
            Body::Id(d) | Body::Sat(d) | Body::ConstRead(d) | Body::Partial(d) => {
                out.push((*d, self.dep(p, *d)?));
            }
            Body::Add(a, b) => {
                out.push((*a, self.dep(p, *a)?));
                out.push((*b, self.dep(p, *b)?));
            }
            Body::If(c, a, b) => {
                let cv = self.dep(p, *c)?;
                out.push((*c, cv));
                let t = if cv != 0 { *a } else { *b };
                out.push((t, self.dep(p, t)?));
            }
            Body::JoinAdd(ds) | Body::UnordAdd(ds) => {
                for d in ds {
                    out.push((*d, self.dep(p, *d)?));
                }
            }
            Body::Edges(_, es) => {
                for (g, d) in es {
                    let on = match g {
                        Some(g) => {
                            let v = self.inputs[*g as usize]?;
                            out.push((Dep::In(*g), v));
                            v != 0
                        }
                        None => true,
                    };
                    if on {
                        out.push((*d, self.dep(p, *d)?));
                    }
                }
            }
        }
        Some(out)
    }

    pub fn set_input(&mut self, i: u8, v: Val) -> SetInputResult {
        let r = match self.inputs[i as usize] {
            None => SetInputResult::Fresh,
            Some(o) if o == v => SetInputResult::Unchanged,
            Some(_) => SetInputResult::Updated,
        };
        self.inputs[i as usize] = Some(v);
        r
    }

    /// Fold the external-input activations of one step into the snapshot.
    pub fn absorb_external_runs(&mut self, events: &[Event]) {
        for e in events {
            if let Event::Exit { key: Key::X(i), val: Some(v), .. } = e {
                self.xsnap[*i as usize] = Some(*v);
            }
        }
    }
}

pub fn key_of_dep(d: Dep) -> Key {
    match d {
        Dep::In(i) => Key::In(i),
        Dep::X(i) => Key::X(i),
        Dep::C(j) => Key::C(j),
    }
}

// ---------------------------------------------------------------------------
// helpers on a live engine
// ---------------------------------------------------------------------------

pub async fn query<C: Config>(
    sh: &Arc<Shared>,
    te: &TrackedEngine<C>,
    k: Key,
) -> Val {
    pq::query_key(sh, te, k).await
}

pub async fn set_in<C: Config>(
    s: &mut qbice::InputSession<C>,
    i: u8,
    v: Val,
) -> SetInputResult {
    s.set_input(QIn(i), v).await
}

pub async fn refresh_x<C: Config>(s: &mut qbice::InputSession<C>) {
    s.refresh::<QX>().await;
}

pub fn style_of(p: &Program, j: u8) -> Style { p.nodes[j as usize].style }


/// (stable type id, key hash) of the query behind `k` — the identity the
/// engine uses (same seeded hasher as the engines built here).
pub fn query_id_of(p: &Program, k: Key) -> (u128, u128) {
    use qbice::stable_hash::{BuildStableHasher, StableHash, StableHasher};
    fn one<Q: qbice::Query>(q: &Q) -> (u128, u128) {
        let mut h = SeededStableHasherBuilder::<Sip128Hasher>::new(SEED).build_stable_hasher();
        q.stable_hash(&mut h);
        (Q::STABLE_TYPE_ID.as_u128(), h.finish())
    }
    match k {
        Key::In(i) => one(&pq::QIn(i)),
        Key::X(i) => one(&pq::QX(i)),
        Key::C(j) => match p.nodes[j as usize].style {
            pq::Style::N => one(&pq::QN(j)),
            pq::Style::F => one(&pq::QF(j)),
            pq::Style::P => one(&pq::QP(j)),
        },
    }
}
