//! Storage-seam rig: `DbBacked<MemKv>` maps + write-behind pipeline, driven
//! directly (C09, C10).

use std::{
    collections::{BTreeMap, BTreeSet},
    sync::Arc,
};

use dashmap::DashSet;
use fxhash::FxBuildHasher;
use qbice::{
    Decode, Encode, Identifiable,
    serialize::Plugin,
    storage::{
        dynamic_map::DynamicMap,
        key_of_set_map::KeyOfSetMap,
        kv_database::{
            DiscriminantEncoding, KeyOfSetColumn, KvDatabaseFactory, WideColumn,
            WideColumnValue,
        },
        single_map::SingleMap,
        storage_engine::{
            StorageEngine,
            db_backed::{Configuration, DbBacked},
        },
    },
};

use crate::memkv::{self, MemKv, MemKvFactory};

#[derive(
    Debug, Clone, Copy, PartialEq, Eq, PartialOrd, Ord, Hash, Identifiable,
)]
pub struct ColW;

impl WideColumn for ColW {
    type Key = u8;
    type Discriminant = u8;

    fn discriminant_encoding() -> DiscriminantEncoding {
        DiscriminantEncoding::Prefixed
    }
}

#[derive(Debug, Clone, PartialEq, Eq, Encode, Decode)]
pub struct VA(pub u64);

impl WideColumnValue<ColW> for VA {
    fn discriminant() -> u8 { 0 }
}

/// separate column for the dynamic map (two value types under one key)
#[derive(
    Debug, Clone, Copy, PartialEq, Eq, PartialOrd, Ord, Hash, Identifiable,
)]
pub struct ColD;

impl WideColumn for ColD {
    type Key = u8;
    type Discriminant = u8;

    fn discriminant_encoding() -> DiscriminantEncoding {
        DiscriminantEncoding::Suffixed
    }
}

#[derive(Debug, Clone, PartialEq, Eq, Encode, Decode)]
pub struct D0(pub u64);
#[derive(Debug, Clone, PartialEq, Eq, Encode, Decode)]
pub struct D1(pub u64);

impl WideColumnValue<ColD> for D0 {
    fn discriminant() -> u8 { 0 }
}

impl WideColumnValue<ColD> for D1 {
    fn discriminant() -> u8 { 1 }
}

#[derive(
    Debug, Clone, Copy, PartialEq, Eq, PartialOrd, Ord, Hash, Identifiable,
)]
pub struct ColS;

impl KeyOfSetColumn for ColS {
    type Key = u8;
    type Element = u16;
}

pub type Db = DbBacked<MemKv>;
pub type Batch = <Db as StorageEngine>::WriteTransaction;
pub type Wm = <Db as StorageEngine>::WriteManager;
pub type SetC = Arc<DashSet<u16, FxBuildHasher>>;

pub struct Rig {
    pub st: memkv::Shared,
    pub wm: Option<Wm>,
    pub single: <Db as StorageEngine>::SingleMap<ColW, VA>,
    pub dynm: <Db as StorageEngine>::DynamicMap<ColD>,
    pub set: <Db as StorageEngine>::KeyOfSetMap<ColS, SetC>,
}

pub fn open(st: memkv::Shared, cap: u64, workers: usize) -> Rig {
    let db = MemKvFactory(st.clone()).open(Plugin::default()).unwrap();
    let storage = DbBacked::new(
        db,
        Configuration::builder()
            .cache_capacity(cap)
            .serialization_workers(workers)
            .default_shard_amount(2)
            .build(),
    );
    Rig {
        st,
        wm: Some(storage.new_write_manager()),
        single: storage.new_single_map::<ColW, VA>(),
        dynm: storage.new_dynamic_map::<ColD>(),
        set: storage.new_key_of_set_map::<ColS, SetC>(),
    }
}

impl Rig {
    pub fn new_batch(&self) -> Batch {
        self.wm.as_ref().unwrap().new_write_batch()
    }

    pub fn submit(&self, b: Batch) {
        self.wm.as_ref().unwrap().submit_write_batch(b);
    }

    /// drop the write manager: returns after the pipeline has drained
    pub fn shutdown(&mut self) { drop(self.wm.take()); }

    pub async fn get(&self, k: u8) -> Option<u64> {
        self.single.get(&k).await.map(|v| v.0)
    }

    pub async fn iter(&self, k: u8) -> Vec<u16> {
        self.set.get(&k).await.collect()
    }

    pub async fn dget0(&self, k: u8) -> Option<u64> {
        self.dynm.get::<D0>(&k).await.map(|v| v.0)
    }

    pub async fn dget1(&self, k: u8) -> Option<u64> {
        self.dynm.get::<D1>(&k).await.map(|v| v.0)
    }
}

/// plain reference maps
#[derive(Default, Debug, Clone, PartialEq, Eq)]
pub struct Model {
    pub wide: BTreeMap<u8, u64>,
    pub d0: BTreeMap<u8, u64>,
    pub d1: BTreeMap<u8, u64>,
    pub sets: BTreeMap<u8, BTreeSet<u16>>,
}

pub const T_SER0: &str = "bg_writer_ser_0";
pub const T_SER1: &str = "bg_writer_ser_1";
pub const T_COMMIT: &str = "bg_writer_commit";
pub const T_NOTIFY: &str = "bg_writer_after_commit";
