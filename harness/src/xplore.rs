//! Deviation-bounded depth-first exploration of shuttle schedules.
//!
//! Canonical order at a scheduling point: the running task first if it is
//! still runnable, then ascending task id. Choice 0 is the default; any other
//! choice is a *deviation* and costs 1. `explore` enumerates every schedule
//! with at most `bound` deviations (below an optional forced prefix).

use std::{
    cell::RefCell,
    collections::HashSet,
    panic::AssertUnwindSafe,
    sync::{Arc, Mutex, Once},
    time::{Duration, Instant},
};

use shuttle::scheduler::{Schedule, Scheduler, Task, TaskId};

#[derive(Clone, Debug)]
struct Level {
    choices: Vec<usize>,
    idx: usize,
    cost_before: usize,
}

/// A schedule = the list of non-default choices `(step, index)`.
pub type Sched = Vec<(usize, usize)>;

#[derive(Clone, Debug, PartialEq, Eq)]
pub enum FailKind {
    /// the harness oracle reported a property violation
    Oracle,
    /// no runnable task but unfinished attached tasks
    Deadlock,
    /// step cap exceeded (livelock)
    StepCap,
    /// a task panicked unexpectedly
    Panic,
}

#[derive(Clone, Debug)]
pub struct Failure {
    pub kind: FailKind,
    pub msg: String,
    pub schedule: Sched,
}

#[derive(Default, Debug, Clone)]
pub struct Stats {
    pub executions: u64,
    pub steps: u64,
    pub max_depth: usize,
    /// scheduling points with more than one runnable task
    pub choice_points: u64,
    pub outcomes: HashSet<u64>,
    pub sigs: HashSet<u64>,
    pub cap_hit: Option<String>,
    pub first_sched_len: usize,
    pub first_branching: Vec<usize>,
}

struct State {
    bound: usize,
    prefix: Vec<usize>,
    stack: Vec<Level>,
    step: usize,
    started: bool,
    done: bool,
    max_exec: u64,
    deadline: Option<Instant>,
    stats: Stats,
    failures: Vec<Failure>,
    nondet: Option<String>,
    max_failures: usize,
    repeat: bool,
}

impl State {
    fn alt_cost(l: &Level, idx: usize) -> usize {
        if idx == 0 { l.cost_before } else { l.cost_before + 1 }
    }

    fn current_schedule(&self) -> Sched {
        self.stack[..self.step.min(self.stack.len())]
            .iter()
            .enumerate()
            .filter(|(_, l)| l.idx != 0)
            .map(|(i, l)| (i, l.idx))
            .collect()
    }

    fn backtrack(&mut self) -> bool {
        self.stack.truncate(self.step);
        while self.stack.len() > self.prefix.len() {
            let mut l = self.stack.pop().unwrap();
            let mut i = l.idx + 1;
            while i < l.choices.len() {
                if Self::alt_cost(&l, i) <= self.bound {
                    break;
                }
                i += 1;
            }
            if i < l.choices.len() {
                l.idx = i;
                self.stack.push(l);
                return true;
            }
        }
        false
    }

    /// bookkeeping at the end of an execution (normal or failed)
    fn finish_execution(&mut self) {
        self.stats.executions += 1;
        self.stats.steps += self.step as u64;
        self.stats.max_depth = self.stats.max_depth.max(self.step);
        if self.stats.executions == 1 {
            self.stats.first_sched_len = self.step;
            self.stats.first_branching =
                self.stack.iter().map(|l| l.choices.len()).collect();
        }

        let sched = self.current_schedule();
        let viol = VIOLATIONS.with(|v| std::mem::take(&mut *v.borrow_mut()));
        for msg in viol {
            let max = self.max_failures;
            push_failure(
                &mut self.failures,
                Failure { kind: FailKind::Oracle, msg, schedule: sched.clone() },
                max,
            );
        }
        if let Some(o) = OUTCOME.with(|o| o.borrow_mut().take()) {
            self.stats.outcomes.insert(fxhash::hash64(&o));
        }
    }
}

thread_local! {
    static VIOLATIONS: RefCell<Vec<String>> = const { RefCell::new(Vec::new()) };
    static OUTCOME: RefCell<Option<String>> = const { RefCell::new(None) };
    static QUIET: RefCell<bool> = const { RefCell::new(false) };
    static EXPLORING: std::cell::Cell<bool> = const { std::cell::Cell::new(true) };
    static MORE: std::cell::Cell<bool> = const { std::cell::Cell::new(false) };
    static PUMP_TARGET: RefCell<Option<String>> = const { RefCell::new(None) };
    static PUMP_FOUND: std::cell::Cell<bool> = const { std::cell::Cell::new(false) };
    static LAST_PANIC: RefCell<Option<String>> = const { RefCell::new(None) };
    static PANIC_LOG: RefCell<Vec<String>> = const { RefCell::new(Vec::new()) };
}

/// Called by a scenario: the oracle found a violation in this execution.
pub fn report_violation(msg: impl Into<String>) {
    VIOLATIONS.with(|v| v.borrow_mut().push(msg.into()));
}

/// Scenario phases: while `false`, scheduling is deterministic and offers no
/// alternatives (current task continues; a yielding task hands over to the
/// next runnable task in cyclic id order, so `settle()` lets background
/// tasks run until they block). Only the concurrent window of a scenario is
/// explored; set-up and final checks are not part of the schedule space.
pub fn exploring(on: bool) { EXPLORING.with(|e| e.set(on)); }

/// Deterministic phases only: hand the processor to the runnable task (OS
/// thread of the code under test) with the given name and let it run until
/// it blocks; control then returns to the lowest-id runnable task (the
/// harness). Returns false if no runnable task has that name (nothing to do).
pub fn pump(name: &str) -> bool {
    PUMP_TARGET.with(|t| *t.borrow_mut() = Some(name.to_string()));
    PUMP_FOUND.with(|f| f.set(false));
    shuttle::thread::yield_now();
    PUMP_TARGET.with(|t| *t.borrow_mut() = None);
    PUMP_FOUND.with(|f| f.get())
}

/// Repeat mode (`Cfg::repeat`): the scenario says whether another execution
/// (under the default schedule) is wanted.
pub fn set_more(more: bool) { MORE.with(|m| m.set(more)); }

/// Let every other runnable task run until it blocks (non-exploring phase).
pub async fn settle() {
    let prev = EXPLORING.with(|e| e.replace(false));
    for _ in 0..3 {
        shuttle::future::yield_now().await;
    }
    EXPLORING.with(|e| e.set(prev));
}

/// Called by a scenario: a summary of what this execution observed (used only
/// to count distinct outcomes — the vacuity guard).
pub fn observe(outcome: impl Into<String>) {
    OUTCOME.with(|o| *o.borrow_mut() = Some(outcome.into()));
}

/// Messages of all panics raised on this OS thread since the last call
/// (expected ones included); used by oracles that forbid unexpected panics.
pub fn take_panic_log() -> Vec<String> {
    PANIC_LOG.with(|p| std::mem::take(&mut *p.borrow_mut()))
}

static HOOK: Once = Once::new();

/// Installs a process-wide panic hook that stays silent on exploration
/// threads (panics are part of normal operation: cyclic-query unwinding,
/// injected executor faults, deadlock reports) and records the message.
pub fn install_quiet_hook() {
    HOOK.call_once(|| {
        // shuttle installs (once) a hook that prints on every panic, also on
        // panics that are part of normal operation here; trigger that
        // installation first, then put ours on top of the ORIGINAL hook.
        let orig = std::panic::take_hook();
        {
            let mut c = shuttle::Config::new();
            c.failure_persistence = shuttle::FailurePersistence::None;
            let r = shuttle::Runner::new(
                shuttle::scheduler::RoundRobinScheduler::new(1),
                c,
            );
            r.run(|| {});
        }
        let _shuttle_hook = std::panic::take_hook();
        std::panic::set_hook(orig);
        let prev = std::panic::take_hook();
        std::panic::set_hook(Box::new(move |info| {
            let msg = if let Some(s) = info.payload().downcast_ref::<&str>() {
                (*s).to_string()
            } else if let Some(s) = info.payload().downcast_ref::<String>() {
                s.clone()
            } else {
                "<non-string payload>".to_string()
            };
            let loc = info
                .location()
                .map(|l| format!("{}:{}", l.file(), l.line()))
                .unwrap_or_default();
            let full = format!("{msg} @ {loc}");
            LAST_PANIC.with(|p| *p.borrow_mut() = Some(full.clone()));
            PANIC_LOG.with(|p| {
                let mut p = p.borrow_mut();
                if p.len() < 64 {
                    p.push(full);
                }
            });
            if !QUIET.with(|q| *q.borrow()) {
                prev(info);
            }
        }));
    });
}

pub fn set_quiet(q: bool) { QUIET.with(|x| *x.borrow_mut() = q); }

struct DfsSched(Arc<Mutex<State>>);

impl Scheduler for DfsSched {
    fn new_execution(&mut self) -> Option<Schedule> {
        let mut s = self.0.lock().unwrap();
        if s.done {
            return None;
        }
        if s.started {
            s.finish_execution();
            if s.stats.executions >= s.max_exec {
                s.stats.cap_hit = Some(format!("max_exec={}", s.max_exec));
                s.done = true;
                return None;
            }
            if let Some(d) = s.deadline {
                if Instant::now() > d {
                    s.stats.cap_hit = Some("deadline".to_string());
                    s.done = true;
                    return None;
                }
            }
            if s.failures.len() >= s.max_failures {
                s.stats.cap_hit =
                    Some(format!("max_failures={}", s.max_failures));
                s.done = true;
                return None;
            }
            if s.repeat {
                if !MORE.with(|m| m.get()) {
                    s.done = true;
                    return None;
                }
                s.step = 0;
                s.stack.clear();
            } else if !s.backtrack() {
                s.done = true;
                return None;
            }
        }
        s.started = true;
        s.step = 0;
        EXPLORING.with(|e| e.set(true));
        qbice_verif_rt::events::reset();
        crate::ystore::reset_thread_state();
        Some(Schedule::new(0))
    }

    fn next_task(
        &mut self,
        runnable: &[&Task],
        current: Option<TaskId>,
        is_yielding: bool,
    ) -> Option<TaskId> {
        let mut s = self.0.lock().unwrap();
        let mut ids: Vec<usize> =
            runnable.iter().map(|t| usize::from(t.id())).collect();
        ids.sort_unstable();
        if !EXPLORING.with(|e| e.get()) {
            // deterministic phase: exactly one choice
            let cur = current.map(usize::from);
            let target = PUMP_TARGET.with(|t| t.borrow_mut().take());
            let named = target.and_then(|n| {
                runnable
                    .iter()
                    .find(|t| t.name().as_deref() == Some(n.as_str()))
                    .map(|t| usize::from(t.id()))
            });
            let pick = match (named, cur) {
                (Some(t), _) => {
                    PUMP_FOUND.with(|f| f.set(true));
                    t
                }
                (None, Some(c)) if ids.contains(&c) && !is_yielding => c,
                // a yielding task hands over to the next task (cyclic)
                (None, Some(c)) if ids.contains(&c) => {
                    *ids.iter().find(|x| **x > c).unwrap_or(&ids[0])
                }
                // the running task blocked or finished: lowest id
                _ => ids[0],
            };
            ids = vec![pick];
        } else if let Some(c) = current.map(usize::from) {
            if let Some(p) = ids.iter().position(|x| *x == c) {
                ids.remove(p);
                ids.insert(0, c);
            }
        }
        let step = s.step;
        let choice = if step < s.stack.len() {
            let l = &s.stack[step];
            if l.choices != ids {
                let m = format!(
                    "nondeterminism at step {step}: recorded {:?} now {:?}",
                    l.choices, ids
                );
                s.nondet = Some(m.clone());
                drop(s);
                panic!("{m}");
            }
            l.choices[l.idx]
        } else {
            let cost_before =
                s.stack.last().map_or(0, |l| State::alt_cost(l, l.idx));
            let idx = if step < s.prefix.len() { s.prefix[step] } else { 0 };
            if idx >= ids.len() {
                let m = format!(
                    "replay divergence at step {step}: index {idx} of {ids:?}"
                );
                s.nondet = Some(m.clone());
                drop(s);
                panic!("{m}");
            }
            if ids.len() > 1 {
                s.stats.choice_points += 1;
            }
            let c = ids[idx];
            let sig = fxhash::hash64(&(step, &ids));
            if s.stats.sigs.len() < 2_000_000 {
                s.stats.sigs.insert(sig);
            }
            s.stack.push(Level { choices: ids, idx, cost_before });
            c
        };
        s.step += 1;
        Some(TaskId::from(choice))
    }

    fn next_u64(&mut self) -> u64 { 0 }
}

#[derive(Clone)]
pub struct Cfg {
    pub bound: usize,
    pub prefix: Vec<usize>,
    pub max_exec: u64,
    pub max_steps: usize,
    pub deadline: Option<Instant>,
    pub max_failures: usize,
    pub stack_size: usize,
    /// run the scenario again and again (default schedule) while it asks for
    /// more via `set_more(true)`
    pub repeat: bool,
    /// called (outside shuttle) when an execution dies with a deadlock, step
    /// cap or escaped panic
    pub on_failure: Option<Arc<dyn Fn(&Failure) + Send + Sync>>,
}

impl std::fmt::Debug for Cfg {
    fn fmt(&self, f: &mut std::fmt::Formatter<'_>) -> std::fmt::Result {
        write!(f, "Cfg(bound={})", self.bound)
    }
}

impl Cfg {
    pub fn new(bound: usize) -> Self {
        Self {
            bound,
            prefix: Vec::new(),
            max_exec: u64::MAX,
            max_steps: 200_000,
            deadline: None,
            max_failures: 200,
            stack_size: 1 << 20,
            repeat: false,
            on_failure: None,
        }
    }

    pub fn with_deadline(mut self, d: Duration) -> Self {
        self.deadline = Some(Instant::now() + d);
        self
    }
}

/// Keeps at most `PER_MESSAGE` failures per distinct (kind, message): a
/// frequent (e.g. known) failure must not crowd a rare one out of the list.
pub const PER_MESSAGE: usize = 3;

pub fn push_failure(v: &mut Vec<Failure>, f: Failure, max: usize) {
    if v.len() >= max {
        return;
    }
    let same = v.iter().filter(|g| g.kind == f.kind && g.msg == f.msg).count();
    if same < PER_MESSAGE {
        v.push(f);
    }
}

#[derive(Debug, Clone)]
pub struct Outcome {
    pub stats: Stats,
    pub failures: Vec<Failure>,
    /// machinery error (nondeterminism / replay divergence)
    pub machinery_error: Option<String>,
}

fn payload_msg(p: &(dyn std::any::Any + Send)) -> String {
    if let Some(s) = p.downcast_ref::<&str>() {
        (*s).to_string()
    } else if let Some(s) = p.downcast_ref::<String>() {
        s.clone()
    } else {
        "<non-string payload>".to_string()
    }
}

/// Explore all schedules of `scenario` with at most `cfg.bound` deviations.
pub fn explore(
    cfg: &Cfg,
    scenario: Arc<dyn Fn() + Send + Sync + 'static>,
) -> Outcome {
    install_quiet_hook();
    set_quiet(true);
    VIOLATIONS.with(|v| v.borrow_mut().clear());
    OUTCOME.with(|o| *o.borrow_mut() = None);

    let state = Arc::new(Mutex::new(State {
        bound: cfg.bound,
        prefix: cfg.prefix.clone(),
        stack: Vec::new(),
        step: 0,
        started: false,
        done: false,
        max_exec: cfg.max_exec,
        deadline: cfg.deadline,
        stats: Stats::default(),
        failures: Vec::new(),
        nondet: None,
        max_failures: cfg.max_failures,
        repeat: cfg.repeat,
    }));
    let on_failure = cfg.on_failure.clone();

    loop {
        let mut scfg = shuttle::Config::new();
        scfg.stack_size = cfg.stack_size;
        scfg.failure_persistence = shuttle::FailurePersistence::None;
        scfg.max_steps = shuttle::MaxSteps::FailAfter(cfg.max_steps);
        scfg.silence_warnings = true;

        let runner = shuttle::Runner::new(DfsSched(state.clone()), scfg);
        let sc = scenario.clone();
        LAST_PANIC.with(|p| *p.borrow_mut() = None);
        let r = std::panic::catch_unwind(AssertUnwindSafe(move || {
            runner.run(move || sc());
        }));

        match r {
            Ok(()) => break,
            Err(p) => {
                let mut s = state.lock().unwrap();
                if s.nondet.is_some() {
                    break;
                }
                let mut msg = payload_msg(&*p);
                let kind = if msg.starts_with("deadlock!") {
                    FailKind::Deadlock
                } else if msg.starts_with("exceeded max_steps") {
                    FailKind::StepCap
                } else {
                    FailKind::Panic
                };
                if kind == FailKind::Panic {
                    if let Some(lp) = LAST_PANIC.with(|p| p.borrow().clone()) {
                        msg = lp;
                    }
                }
                let schedule = s.current_schedule();
                if let Some(cb) = &on_failure {
                    cb(&Failure {
                        kind: kind.clone(),
                        msg: msg.clone(),
                        schedule: schedule.clone(),
                    });
                }
                let max = s.max_failures;
                push_failure(&mut s.failures, Failure { kind, msg, schedule }, max);
                // the failed execution is accounted for by the next
                // `new_execution` (finish_execution + backtrack)
            }
        }
    }

    set_quiet(false);
    let s = state.lock().unwrap();
    Outcome {
        stats: s.stats.clone(),
        failures: s.failures.clone(),
        machinery_error: s.nondet.clone(),
    }
}

/// Expand a sparse schedule into a dense choice-index prefix.
pub fn dense(s: &Sched) -> Vec<usize> {
    let n = s.iter().map(|(i, _)| i + 1).max().unwrap_or(0);
    let mut v = vec![0; n];
    for (i, a) in s {
        v[*i] = *a;
    }
    v
}

/// Run exactly one schedule (defaults after the recorded prefix).
pub fn replay(
    sched: &Sched,
    scenario: Arc<dyn Fn() + Send + Sync + 'static>,
) -> Outcome {
    let mut cfg = Cfg::new(0);
    cfg.prefix = dense(sched);
    cfg.max_exec = 1;
    explore(&cfg, scenario)
}

/// Exhaustive exploration with the work split over `threads` OS threads by
/// first deviation. Returns the merged outcome; `bound` 0 runs one schedule.
pub fn explore_parallel(
    cfg: &Cfg,
    threads: usize,
    scenario: Arc<dyn Fn() + Send + Sync + 'static>,
) -> Outcome {
    // the default schedule, also yields the branching structure
    let mut c0 = cfg.clone();
    c0.bound = 0;
    let base = explore(&c0, scenario.clone());
    if cfg.bound == 0
        || base.machinery_error.is_some()
        || base.failures.iter().any(|f| f.kind != FailKind::Oracle)
    {
        return base;
    }

    let mut items: Vec<Vec<usize>> = Vec::new();
    for (i, n) in base.stats.first_branching.iter().enumerate() {
        for alt in 1..*n {
            let mut p = vec![0usize; i + 1];
            p[i] = alt;
            items.push(p);
        }
    }

    let queue = Arc::new(Mutex::new(items));
    let merged = Arc::new(Mutex::new(base));

    std::thread::scope(|sc| {
        for _ in 0..threads.max(1) {
            let queue = queue.clone();
            let merged = merged.clone();
            let scenario = scenario.clone();
            let cfg = cfg.clone();
            std::thread::Builder::new()
                .stack_size(16 << 20)
                .spawn_scoped(sc, move || {
                    loop {
                        let item = queue.lock().unwrap().pop();
                        let Some(prefix) = item else { break };
                        let mut c = cfg.clone();
                        c.prefix = prefix;
                        let o = explore(&c, scenario.clone());
                        let mut m = merged.lock().unwrap();
                        merge_into(&mut m, o);
                        if m.machinery_error.is_some() {
                            break;
                        }
                    }
                })
                .unwrap();
        }
    });

    Arc::try_unwrap(merged).unwrap().into_inner().unwrap()
}

pub fn merge_into(m: &mut Outcome, o: Outcome) {
    m.stats.executions += o.stats.executions;
    m.stats.steps += o.stats.steps;
    m.stats.max_depth = m.stats.max_depth.max(o.stats.max_depth);
    m.stats.choice_points += o.stats.choice_points;
    m.stats.outcomes.extend(o.stats.outcomes);
    if m.stats.sigs.len() < 4_000_000 {
        m.stats.sigs.extend(o.stats.sigs);
    }
    if m.stats.cap_hit.is_none() {
        m.stats.cap_hit = o.stats.cap_hit;
    }
    for f in o.failures {
        push_failure(&mut m.failures, f, 2000);
    }
    if m.machinery_error.is_none() {
        m.machinery_error = o.machinery_error;
    }
}

/// Run `f` once inside a shuttle execution under the default schedule
/// (sequential harnesses that only need the shims to be usable).
pub fn run_default<T: Send + 'static>(
    f: impl FnOnce() -> T + Send + 'static,
) -> Result<T, Failure> {
    let slot: Arc<Mutex<Option<T>>> = Arc::new(Mutex::new(None));
    let s2 = slot.clone();
    let f = Mutex::new(Some(f));
    let mut cfg = Cfg::new(0);
    cfg.max_exec = 1;
    cfg.max_steps = usize::MAX / 2;
    let o = explore(
        &cfg,
        Arc::new(move || {
            let f = f.lock().unwrap().take().expect("run once");
            let r = f();
            *s2.lock().unwrap() = Some(r);
        }),
    );
    if let Some(m) = o.machinery_error {
        return Err(Failure {
            kind: FailKind::Panic,
            msg: m,
            schedule: vec![],
        });
    }
    if let Some(f) = o.failures.into_iter().find(|f| f.kind != FailKind::Oracle)
    {
        return Err(f);
    }
    let r = slot.lock().unwrap().take();
    r.ok_or(Failure {
        kind: FailKind::Panic,
        msg: "scenario produced no result".into(),
        schedule: vec![],
    })
}

/// Run `body` again and again, one shuttle execution (default schedule) per
/// call, until it returns false. `on_failure` is told about executions that
/// died (deadlock, step cap, escaped panic) and returns whether to go on.
pub fn repeat(
    body: Arc<dyn Fn() -> bool + Send + Sync>,
    on_failure: Arc<dyn Fn(&Failure) -> bool + Send + Sync>,
) -> Outcome {
    let mut cfg = Cfg::new(0);
    cfg.repeat = true;
    cfg.max_failures = 10_000;
    cfg.max_steps = 5_000_000;
    cfg.on_failure = Some(Arc::new(move |f| {
        let more = on_failure(f);
        set_more(more);
    }));
    explore(
        &cfg,
        Arc::new(move || {
            let more = body();
            set_more(more);
        }),
    )
}

impl Outcome {
    pub fn to_json(&self) -> serde_json::Value {
        serde_json::json!({
            "executions": self.stats.executions,
            "steps": self.stats.steps,
            "max_depth": self.stats.max_depth,
            "choice_points": self.stats.choice_points,
            "outcomes": self.stats.outcomes.len(),
            "sigs": self.stats.sigs.len(),
            "cap_hit": self.stats.cap_hit,
            "machinery_error": self.machinery_error,
            "failures": self.failures.iter().take(2000).map(|f| serde_json::json!({
                "kind": format!("{:?}", f.kind),
                "msg": f.msg,
                "schedule": f.schedule.iter().map(|(a, b)| serde_json::json!([a, b])).collect::<Vec<_>>(),
            })).collect::<Vec<_>>(),
        })
    }
}

/// Outcome of a scenario explored in a child process.
#[derive(Debug, Clone, Default)]
pub struct Summary {
    pub executions: u64,
    pub steps: u64,
    pub max_depth: usize,
    pub outcomes: usize,
    pub sigs: u64,
    pub cap_hit: Option<String>,
    pub machinery_error: Option<String>,
    pub failures: Vec<Failure>,
}

impl Summary {
    pub fn from_json(v: &serde_json::Value) -> Self {
        let kind = |s: &str| match s {
            "Oracle" => FailKind::Oracle,
            "Deadlock" => FailKind::Deadlock,
            "StepCap" => FailKind::StepCap,
            _ => FailKind::Panic,
        };
        Self {
            executions: v["executions"].as_u64().unwrap_or(0),
            steps: v["steps"].as_u64().unwrap_or(0),
            max_depth: v["max_depth"].as_u64().unwrap_or(0) as usize,
            outcomes: v["outcomes"].as_u64().unwrap_or(0) as usize,
            sigs: v["sigs"].as_u64().unwrap_or(0),
            cap_hit: v["cap_hit"].as_str().map(str::to_string),
            machinery_error: v["machinery_error"].as_str().map(str::to_string),
            failures: v["failures"]
                .as_array()
                .map(|a| {
                    a.iter()
                        .map(|f| Failure {
                            kind: kind(f["kind"].as_str().unwrap_or("")),
                            msg: f["msg"].as_str().unwrap_or("").to_string(),
                            schedule: f["schedule"]
                                .as_array()
                                .map(|s| {
                                    s.iter()
                                        .map(|p| {
                                            (
                                                p[0].as_u64().unwrap_or(0) as usize,
                                                p[1].as_u64().unwrap_or(0) as usize,
                                            )
                                        })
                                        .collect()
                                })
                                .unwrap_or_default(),
                        })
                        .collect()
                })
                .unwrap_or_default(),
        }
    }
}

/// A persistent shuttle runner on its own OS thread: every job is one
/// execution under the default schedule (amortises runner / stack set-up).
pub struct Pool {
    tx: Option<std::sync::mpsc::Sender<Box<dyn FnOnce() + Send>>>,
    last_failure: Arc<Mutex<Option<Failure>>>,
    handle: Option<std::thread::JoinHandle<()>>,
}

impl Pool {
    pub fn new() -> Self {
        let (tx, rx) = std::sync::mpsc::channel::<Box<dyn FnOnce() + Send>>();
        let rx = Arc::new(Mutex::new(rx));
        let last_failure = Arc::new(Mutex::new(None));
        let lf = last_failure.clone();
        let handle = std::thread::Builder::new()
            .stack_size(32 << 20)
            .spawn(move || {
                let rx2 = rx.clone();
                let body = Arc::new(move || -> bool {
                    let job = rx2.lock().unwrap().recv();
                    match job {
                        Ok(j) => {
                            j();
                            true
                        }
                        Err(_) => false,
                    }
                });
                let on_failure = Arc::new(move |f: &Failure| -> bool {
                    *lf.lock().unwrap() = Some(f.clone());
                    true
                });
                let _ = repeat(body, on_failure);
            })
            .unwrap();
        Self { tx: Some(tx), last_failure, handle: Some(handle) }
    }

    pub fn run<T: Send + 'static>(
        &self,
        f: impl FnOnce() -> T + Send + 'static,
    ) -> Result<T, Failure> {
        let (rtx, rrx) = std::sync::mpsc::channel::<T>();
        *self.last_failure.lock().unwrap() = None;
        self.tx
            .as_ref()
            .unwrap()
            .send(Box::new(move || {
                let r = f();
                let _ = rtx.send(r);
            }))
            .expect("pool thread gone");
        match rrx.recv() {
            Ok(v) => Ok(v),
            Err(_) => {
                // the execution died; wait for the failure record
                for _ in 0..2000 {
                    if let Some(f) = self.last_failure.lock().unwrap().take() {
                        return Err(f);
                    }
                    std::thread::sleep(Duration::from_millis(1));
                }
                Err(Failure {
                    kind: FailKind::Panic,
                    msg: "execution died without a failure record".into(),
                    schedule: vec![],
                })
            }
        }
    }
}

impl Drop for Pool {
    fn drop(&mut self) {
        drop(self.tx.take());
        if let Some(h) = self.handle.take() {
            let _ = h.join();
        }
    }
}
