//! YieldingStorage — a `StorageEngine` wrapper whose map futures yield once
//! (making every storage access a scheduling and cancellation point) and
//! which can keep a shadow dump of everything stored (canonical engine state).

use std::{
    cell::{Cell, RefCell},
    collections::BTreeMap,
    marker::PhantomData,
};

use qbice::storage::{
    dynamic_map::DynamicMap,
    key_of_set_map::{ConcurrentSet, KeyOfSetMap},
    kv_database::{KeyOfSetColumn, WideColumn, WideColumnValue},
    single_map::SingleMap,
    storage_engine::{StorageEngine, StorageEngineFactory},
};

pub const Y_GET: u32 = 1;
pub const Y_PUT: u32 = 2;
pub const Y_SET: u32 = 4;
pub const Y_ALL: u32 = 7;

thread_local! {
    /// storage operations performed so far by ANY task (counted whether or
    /// not the operation yields)
    static ACCESSES: Cell<usize> = const { Cell::new(0) };
    /// cancel the registered victim at the k-th storage operation (0 = off)
    static TRIGGER_AT: Cell<usize> = const { Cell::new(0) };
    static TRIGGERED: Cell<bool> = const { Cell::new(false) };
    static VICTIM_WAKER: RefCell<Option<std::task::Waker>> = const { RefCell::new(None) };
    static MASK: Cell<u32> = const { Cell::new(0) };
    static SHADOW_ON: Cell<bool> = const { Cell::new(false) };
    static SHADOW: RefCell<BTreeMap<String, String>> =
        const { RefCell::new(BTreeMap::new()) };
}

/// Which storage operations yield before executing (per OS thread).
pub fn set_yield_mask(m: u32) { MASK.with(|x| x.set(m)); }

pub fn set_shadow(on: bool) {
    SHADOW_ON.with(|x| x.set(on));
    SHADOW.with(|s| s.borrow_mut().clear());
}

pub fn shadow_dump() -> BTreeMap<String, String> {
    SHADOW.with(|s| s.borrow().clone())
}

pub fn access_count() -> usize { ACCESSES.with(Cell::get) }

/// Restart counting; the victim registered by `set_victim_waker` is cancelled
/// (woken, so that its wrapper can drop it) at the `k`-th storage operation
/// from now on, whichever task performs it. `k == 0`: never.
pub fn arm_cancellation(k: usize) {
    ACCESSES.with(|c| c.set(0));
    TRIGGER_AT.with(|c| c.set(k));
    TRIGGERED.with(|c| c.set(false));
    VICTIM_WAKER.with(|w| *w.borrow_mut() = None);
}

/// Called by the explorer at the start of every execution: an execution that
/// was abandoned half-way (deadlock, panic) must not leave its yield mask or
/// an armed cancellation behind for the next execution on this OS thread -
/// schedules are recorded by step number, and extra yields during set-up
/// would shift them ("replay divergence" on another thread).
pub fn reset_thread_state() {
    set_yield_mask(0);
    arm_cancellation(0);
}

pub fn cancellation_triggered() -> bool { TRIGGERED.with(Cell::get) }

pub fn set_victim_waker(w: std::task::Waker) { VICTIM_WAKER.with(|x| *x.borrow_mut() = Some(w)); }

fn count_access() {
    let n = ACCESSES.with(|c| {
        c.set(c.get() + 1);
        c.get()
    });
    if n == TRIGGER_AT.with(Cell::get) {
        TRIGGERED.with(|c| c.set(true));
        if let Some(w) = VICTIM_WAKER.with(|w| w.borrow_mut().take()) {
            w.wake();
        }
    }
}

async fn maybe_yield(bit: u32) {
    count_access();
    if MASK.with(Cell::get) & bit != 0 {
        qbice_verif_rt::tokio::task::yield_now().await;
    }
}

fn short<T>() -> &'static str {
    let n = std::any::type_name::<T>();
    n
}

fn shadow_put(col: &str, key: String, val: Option<String>) {
    if !SHADOW_ON.with(Cell::get) {
        return;
    }
    SHADOW.with(|s| {
        let k = format!("{col}|{key}");
        match val {
            Some(v) => {
                s.borrow_mut().insert(k, v);
            }
            None => {
                s.borrow_mut().remove(&k);
            }
        }
    });
}

#[derive(Debug, Clone, Copy, Default)]
pub struct YStore<S>(pub S);

#[derive(Debug)]
pub struct YSingle<M>(M);
#[derive(Debug)]
pub struct YDynamic<M>(M);
#[derive(Debug)]
pub struct YSet<M>(M);

impl<K: WideColumn, V: WideColumnValue<K>, M: SingleMap<K, V> + Send + Sync>
    SingleMap<K, V> for YSingle<M>
where
    M::WriteTransaction: Send,
{
    type WriteTransaction = M::WriteTransaction;

    async fn get(&self, key: &K::Key) -> Option<V> {
        maybe_yield(Y_GET).await;
        self.0.get(key).await
    }

    async fn insert(
        &self,
        key: K::Key,
        value: V,
        write_transaction: &mut Self::WriteTransaction,
    ) {
        maybe_yield(Y_PUT).await;
        shadow_put(
            short::<(K, V)>(),
            format!("{key:?}"),
            Some(format!("{value:?}")),
        );
        self.0.insert(key, value, write_transaction).await;
    }

    async fn remove(
        &self,
        key: &K::Key,
        write_transaction: &mut Self::WriteTransaction,
    ) {
        maybe_yield(Y_PUT).await;
        shadow_put(short::<(K, V)>(), format!("{key:?}"), None);
        self.0.remove(key, write_transaction).await;
    }
}

impl<K: WideColumn, M: DynamicMap<K> + Send + Sync> DynamicMap<K>
    for YDynamic<M>
where
    M::WriteTransaction: Send,
{
    type WriteTransaction = M::WriteTransaction;

    async fn get<V: WideColumnValue<K>>(&self, key: &K::Key) -> Option<V> {
        maybe_yield(Y_GET).await;
        self.0.get::<V>(key).await
    }

    async fn insert<V: WideColumnValue<K>>(
        &self,
        key: K::Key,
        value: V,
        write_transaction: &mut Self::WriteTransaction,
    ) {
        maybe_yield(Y_PUT).await;
        shadow_put(
            short::<(K, V)>(),
            format!("{key:?}"),
            Some(format!("{value:?}")),
        );
        self.0.insert(key, value, write_transaction).await;
    }

    async fn remove<V: WideColumnValue<K>>(
        &self,
        key: &K::Key,
        write_transaction: &mut Self::WriteTransaction,
    ) {
        maybe_yield(Y_PUT).await;
        shadow_put(short::<(K, V)>(), format!("{key:?}"), None);
        self.0.remove::<V>(key, write_transaction).await;
    }
}

impl<
    K: KeyOfSetColumn,
    C: ConcurrentSet<Element = K::Element>,
    M: KeyOfSetMap<K, C> + Send + Sync,
> KeyOfSetMap<K, C> for YSet<(M, PhantomData<fn() -> C>)>
where
    M::WriteBatch: Send,
{
    type WriteBatch = M::WriteBatch;

    async fn get(
        &self,
        key: &K::Key,
    ) -> impl Iterator<Item = K::Element> + Send {
        maybe_yield(Y_SET).await;
        self.0.0.get(key).await
    }

    async fn insert(
        &self,
        key: K::Key,
        element: K::Element,
        write_batch: &mut Self::WriteBatch,
    ) {
        maybe_yield(Y_PUT).await;
        shadow_put(
            short::<K>(),
            format!("{key:?}#{element:?}"),
            Some(String::new()),
        );
        self.0.0.insert(key, element, write_batch).await;
    }

    async fn remove(
        &self,
        key: &K::Key,
        element: &K::Element,
        write_batch: &mut Self::WriteBatch,
    ) {
        maybe_yield(Y_PUT).await;
        shadow_put(short::<K>(), format!("{key:?}#{element:?}"), None);
        self.0.0.remove(key, element, write_batch).await;
    }
}

impl<S: StorageEngine> StorageEngine for YStore<S>
where
    S::WriteTransaction: Send,
{
    type WriteTransaction = S::WriteTransaction;
    type WriteManager = S::WriteManager;
    type SingleMap<K: WideColumn, V: WideColumnValue<K>> =
        YSingle<S::SingleMap<K, V>>;
    type DynamicMap<K: WideColumn> = YDynamic<S::DynamicMap<K>>;
    type KeyOfSetMap<
        K: KeyOfSetColumn,
        C: ConcurrentSet<Element = K::Element>,
    > = YSet<(S::KeyOfSetMap<K, C>, PhantomData<fn() -> C>)>;

    fn new_write_manager(&self) -> Self::WriteManager {
        self.0.new_write_manager()
    }

    fn new_single_map<K: WideColumn, V: WideColumnValue<K>>(
        &self,
    ) -> Self::SingleMap<K, V> {
        YSingle(self.0.new_single_map::<K, V>())
    }

    fn new_dynamic_map<K: WideColumn>(&self) -> Self::DynamicMap<K> {
        YDynamic(self.0.new_dynamic_map::<K>())
    }

    fn new_key_of_set_map<
        K: KeyOfSetColumn,
        C: ConcurrentSet<Element = K::Element>,
    >(
        &self,
    ) -> Self::KeyOfSetMap<K, C> {
        YSet((self.0.new_key_of_set_map::<K, C>(), PhantomData))
    }
}

#[derive(Debug, Clone, Copy, Default)]
pub struct YFactory<F>(pub F);

impl<F: StorageEngineFactory> StorageEngineFactory for YFactory<F> {
    type StorageEngine = YStore<F::StorageEngine>;
    type Error = F::Error;

    fn open(
        self,
        serialization_plugin: qbice::serialize::Plugin,
    ) -> Result<Self::StorageEngine, Self::Error> {
        Ok(YStore(self.0.open(serialization_plugin)?))
    }
}
