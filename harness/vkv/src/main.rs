//! C11: the shipped `KvDatabase` backends (RocksDB, Fjall) against a plain
//! reference map, explored exhaustively over a universe of logical cells
//! (column x value type x key, column x key x element) and over all short
//! histories of batches with reopen points.
//!
//! usage: vkv run <rocksdb|fjall> <quick|thorough> <part>     (prints `RESULT {json}`)
//!        vkv replay <file>
use std::{
    collections::BTreeSet,
    fmt::Debug,
    path::{Path, PathBuf},
    sync::Arc,
    time::Instant,
};

use qbice::{Decode, Encode, Identifiable, serialize::Plugin};
use qbice_storage::kv_database::{
    DiscriminantEncoding, KeyOfSetColumn, KvDatabase, SerializationBuffer,
    WideColumn, WideColumnValue, WriteBatch, fjall::Fjall, rocksdb::RocksDB,
};
use serde_json::{Value, json};

// ---------------------------------------------------------------------------
// columns
// ---------------------------------------------------------------------------

macro_rules! col {
    ($n:ident) => {
        #[derive(Debug, Clone, Copy, PartialEq, Eq, Hash, Identifiable)]
        pub struct $n;
    };
}
macro_rules! val {
    ($n:ident($t:ty)) => {
        #[derive(Debug, Clone, PartialEq, Eq, Encode, Decode)]
        pub struct $n(pub $t);
    };
}

// prefixed u8 discriminant, byte-string keys
col!(WP);
impl WideColumn for WP {
    type Key = Vec<u8>;
    type Discriminant = u8;
    fn discriminant_encoding() -> DiscriminantEncoding {
        DiscriminantEncoding::Prefixed
    }
}
val!(PA(u32));
val!(PB(String));
val!(PU(()));
impl WideColumnValue<WP> for PA {
    fn discriminant() -> u8 { 0 }
}
impl WideColumnValue<WP> for PB {
    fn discriminant() -> u8 { 1 }
}
impl WideColumnValue<WP> for PU {
    fn discriminant() -> u8 { 255 }
}

// twin of WP: same key and value types, other column
col!(WP2);
impl WideColumn for WP2 {
    type Key = Vec<u8>;
    type Discriminant = u8;
    fn discriminant_encoding() -> DiscriminantEncoding {
        DiscriminantEncoding::Prefixed
    }
}
impl WideColumnValue<WP2> for PA {
    fn discriminant() -> u8 { 0 }
}
impl WideColumnValue<WP2> for PB {
    fn discriminant() -> u8 { 1 }
}

// suffixed variable-width discriminant (1-byte and 2-byte varints), string keys
col!(WS);
impl WideColumn for WS {
    type Key = String;
    type Discriminant = u16;
    fn discriminant_encoding() -> DiscriminantEncoding {
        DiscriminantEncoding::Suffixed
    }
}
val!(SA(u8));
val!(SB(Vec<u8>));
val!(SC(Option<String>));
impl WideColumnValue<WS> for SA {
    fn discriminant() -> u16 { 1 }
}
impl WideColumnValue<WS> for SB {
    fn discriminant() -> u16 { 300 }
}
impl WideColumnValue<WS> for SC {
    fn discriminant() -> u16 { 0 }
}

// everything empty: unit key, unit discriminant
col!(WU);
impl WideColumn for WU {
    type Key = ();
    type Discriminant = ();
    fn discriminant_encoding() -> DiscriminantEncoding {
        DiscriminantEncoding::Prefixed
    }
}
val!(UA(u64));
impl WideColumnValue<WU> for UA {
    fn discriminant() {}
}

// unit key, suffixed string discriminants that are prefixes of one another
col!(WT);
impl WideColumn for WT {
    type Key = ();
    type Discriminant = String;
    fn discriminant_encoding() -> DiscriminantEncoding {
        DiscriminantEncoding::Suffixed
    }
}
val!(TA(u8));
val!(TB(u8));
val!(TC(u8));
impl WideColumnValue<WT> for TA {
    fn discriminant() -> String { String::new() }
}
impl WideColumnValue<WT> for TB {
    fn discriminant() -> String { "a".into() }
}
impl WideColumnValue<WT> for TC {
    fn discriminant() -> String { "ab".into() }
}

// nested keys
col!(WN);
impl WideColumn for WN {
    type Key = (Vec<u8>, Option<String>);
    type Discriminant = u8;
    fn discriminant_encoding() -> DiscriminantEncoding {
        DiscriminantEncoding::Suffixed
    }
}
val!(NA(i64));
val!(NB((u8, Vec<String>)));
impl WideColumnValue<WN> for NA {
    fn discriminant() -> u8 { 7 }
}
impl WideColumnValue<WN> for NB {
    fn discriminant() -> u8 { 8 }
}

col!(S1);
impl KeyOfSetColumn for S1 {
    type Key = Vec<u8>;
    type Element = Vec<u8>;
}
col!(S1B);
impl KeyOfSetColumn for S1B {
    type Key = Vec<u8>;
    type Element = Vec<u8>;
}
col!(S2);
impl KeyOfSetColumn for S2 {
    type Key = ();
    type Element = String;
}
col!(S3);
impl KeyOfSetColumn for S3 {
    type Key = String;
    type Element = (u8, Vec<u8>);
}
col!(S4);
impl KeyOfSetColumn for S4 {
    type Key = (Vec<u8>, Vec<u8>);
    type Element = ();
}
// raw fixed-width keys: the encoded key has no inner length, so the 8-byte
// length prefix is the only framing
col!(S5);
impl KeyOfSetColumn for S5 {
    type Key = [u8; 2];
    type Element = [u8; 1];
}

// ---------------------------------------------------------------------------
// writers: the two write paths of a backend
// ---------------------------------------------------------------------------

pub enum Wr<D: KvDatabase> {
    Direct(D::WriteBatch),
    Buffered(D::SerializationBuffer),
}

impl<D: KvDatabase> Wr<D> {
    fn put<W: WideColumn, C: WideColumnValue<W>>(&mut self, k: &W::Key, v: &C) {
        match self {
            Wr::Direct(b) => b.put::<W, C>(k, v),
            Wr::Buffered(b) => b.put::<W, C>(k, v),
        }
    }
    fn delete<W: WideColumn, C: WideColumnValue<W>>(&mut self, k: &W::Key) {
        match self {
            Wr::Direct(b) => b.delete::<W, C>(k),
            Wr::Buffered(b) => b.delete::<W, C>(k),
        }
    }
    fn insert_member<C: KeyOfSetColumn>(&mut self, k: &C::Key, e: &C::Element) {
        match self {
            Wr::Direct(b) => b.insert_member::<C>(k, e),
            Wr::Buffered(b) => b.insert_member::<C>(k, e),
        }
    }
    fn delete_member<C: KeyOfSetColumn>(&mut self, k: &C::Key, e: &C::Element) {
        match self {
            Wr::Direct(b) => b.delete_member::<C>(k, e),
            Wr::Buffered(b) => b.delete_member::<C>(k, e),
        }
    }
}

// ---------------------------------------------------------------------------
// cells and groups
// ---------------------------------------------------------------------------

/// One logical location of the store. `Some(i)` = the i-th value of the
/// cell's domain, `None` = absent.
pub trait Cell<D: KvDatabase>: Send + Sync {
    fn id(&self) -> String;
    fn domain(&self) -> usize;
    fn write(&self, w: &mut Wr<D>, v: Option<usize>);
    /// wide cells: point read -> value index; `Err` = a value outside the domain
    fn read(&self, db: &D) -> Option<Result<Option<usize>, String>>;
    /// set member cells: (group index, element rendering)
    fn member(&self) -> Option<(usize, String)>;
}

pub trait Group<D: KvDatabase>: Send + Sync {
    fn id(&self) -> String;
    fn scan(&self, db: &D) -> Vec<String>;
}

struct WCell<W: WideColumn, C: WideColumnValue<W>> {
    col: &'static str,
    key: W::Key,
    vals: Vec<C>,
}

impl<D: KvDatabase, W: WideColumn, C: WideColumnValue<W> + PartialEq> Cell<D>
    for WCell<W, C>
{
    fn id(&self) -> String {
        format!(
            "{}<{}>[{}]",
            self.col,
            std::any::type_name::<C>().rsplit("::").next().unwrap_or(""),
            short(&self.key)
        )
    }
    fn domain(&self) -> usize { self.vals.len() }
    fn write(&self, w: &mut Wr<D>, v: Option<usize>) {
        match v {
            Some(i) => w.put::<W, C>(&self.key, &self.vals[i]),
            None => w.delete::<W, C>(&self.key),
        }
    }
    fn read(&self, db: &D) -> Option<Result<Option<usize>, String>> {
        Some(match db.get_wide_column::<W, C>(&self.key) {
            None => Ok(None),
            Some(v) => match self.vals.iter().position(|x| *x == v) {
                Some(i) => Ok(Some(i)),
                None => Err(short(&v)),
            },
        })
    }
    fn member(&self) -> Option<(usize, String)> { None }
}

struct MCell<C: KeyOfSetColumn> {
    col: &'static str,
    key: C::Key,
    elem: C::Element,
    group: usize,
}

impl<D: KvDatabase, C: KeyOfSetColumn> Cell<D> for MCell<C> {
    fn id(&self) -> String {
        format!("{}[{}]∋{}", self.col, short(&self.key), short(&self.elem))
    }
    fn domain(&self) -> usize { 1 }
    fn write(&self, w: &mut Wr<D>, v: Option<usize>) {
        match v {
            Some(_) => w.insert_member::<C>(&self.key, &self.elem),
            None => w.delete_member::<C>(&self.key, &self.elem),
        }
    }
    fn read(&self, _db: &D) -> Option<Result<Option<usize>, String>> { None }
    fn member(&self) -> Option<(usize, String)> {
        Some((self.group, format!("{:?}", self.elem)))
    }
}

struct SGroup<C: KeyOfSetColumn> {
    col: &'static str,
    key: C::Key,
}

impl<D: KvDatabase, C: KeyOfSetColumn> Group<D> for SGroup<C> {
    fn id(&self) -> String { format!("{}[{}]", self.col, short(&self.key)) }
    fn scan(&self, db: &D) -> Vec<String> {
        let mut v: Vec<String> =
            db.scan_members::<C>(&self.key).map(|e| format!("{e:?}")).collect();
        v.sort();
        v
    }
}

fn short<T: Debug>(t: &T) -> String { short_str(format!("{t:?}")) }

fn short_str(s: String) -> String {
    if s.len() > 60 {
        let h = s.bytes().fold(0u32, |a, b| a.wrapping_mul(31).wrapping_add(b as u32));
        let head: String = s.chars().take(24).collect();
        format!("{head}…(len {} #{h:08x})", s.len())
    } else {
        s
    }
}

pub struct Universe<D: KvDatabase> {
    cells: Vec<Arc<dyn Cell<D>>>,
    groups: Vec<Arc<dyn Group<D>>>,
    /// per group: (cell index, element rendering) of its member cells
    members: Vec<Vec<(usize, String)>>,
}

impl<D: KvDatabase> Universe<D> {
    fn new() -> Self { Self { cells: vec![], groups: vec![], members: vec![] } }

    fn wide<W: WideColumn, C: WideColumnValue<W> + PartialEq>(
        &mut self,
        col: &'static str,
        keys: &[W::Key],
        vals: &[C],
    ) {
        for k in keys {
            self.cells.push(Arc::new(WCell::<W, C> {
                col,
                key: k.clone(),
                vals: vals.to_vec(),
            }));
        }
    }

    fn set<C: KeyOfSetColumn>(
        &mut self,
        col: &'static str,
        keys: &[C::Key],
        elems: &[C::Element],
    ) {
        for k in keys {
            let g = self.groups.len();
            self.groups.push(Arc::new(SGroup::<C> { col, key: k.clone() }));
            self.members.push(Vec::new());
            for e in elems {
                self.members[g].push((self.cells.len(), format!("{e:?}")));
                self.cells.push(Arc::new(MCell::<C> {
                    col,
                    key: k.clone(),
                    elem: e.clone(),
                    group: g,
                }));
            }
        }
    }
}

fn bytes_keys(rich: bool) -> Vec<Vec<u8>> {
    let mut v: Vec<Vec<u8>> = vec![
        vec![],
        vec![0],
        vec![0, 0],
        vec![1],
        vec![1, 0],
        vec![0xFE, 0xFF],
        vec![0xFF],
        vec![0xFF, 0x00],
        vec![0xFF, 0xFF],
        b"a".to_vec(),
        b"ab".to_vec(),
        b"b".to_vec(),
        vec![0xFF; 8],
        vec![0xFF; 9],
        // varint length boundary of the encoded key (127 / 128 bytes)
        vec![b'x'; 127],
        vec![b'x'; 128],
        // 8-byte little-endian length prefix: 255 / 256 / 257 byte encodings
        vec![b'y'; 253],
        vec![b'y'; 254],
        vec![b'y'; 255],
        // multi-kilobyte, 0xFF-heavy, one a strict extension of the other
        vec![0xFF; 3000],
        vec![0xFF; 3001],
    ];
    if rich {
        let mut big = vec![b'k'; 5000];
        v.push(big.clone());
        big.push(0);
        v.push(big);
        v.push(vec![0, 0, 0, 0, 0, 0, 0, 1]);
        v.push(vec![1, 0, 0, 0, 0, 0, 0, 0]);
        v.push(vec![0x80]);
        v.push(vec![0x7F]);
    }
    v
}

fn str_keys() -> Vec<String> {
    vec![
        String::new(),
        "a".into(),
        "ab".into(),
        "b".into(),
        "\u{0}".into(),
        "\u{7f}".into(),
        "\u{80}".into(),
        "é".into(),
        "\u{10FFFF}".into(),
        "z".repeat(127),
        "z".repeat(128),
        "q".repeat(4096),
    ]
}

/// The large universe of the isolation sweep.
fn big_universe<D: KvDatabase>(rich: bool) -> Universe<D> {
    let mut u = Universe::new();
    let bk = bytes_keys(rich);
    let sk = str_keys();
    u.wide::<WP, PA>("WP", &bk, &[PA(0), PA(1), PA(u32::MAX)]);
    u.wide::<WP, PB>("WP", &bk, &[PB(String::new()), PB("x".repeat(10_000))]);
    u.wide::<WP, PU>("WP", &bk, &[PU(())]);
    u.wide::<WP2, PA>("WP2", &bk, &[PA(7), PA(8)]);
    u.wide::<WP2, PB>("WP2", &bk[..6], &[PB("t".into()), PB(String::new())]);
    u.wide::<WS, SA>("WS", &sk, &[SA(0), SA(255)]);
    u.wide::<WS, SB>("WS", &sk, &[SB(vec![]), SB(vec![0xFF; 5000])]);
    u.wide::<WS, SC>("WS", &sk, &[SC(None), SC(Some(String::new()))]);
    u.wide::<WU, UA>("WU", &[()], &[UA(0), UA(u64::MAX)]);
    u.wide::<WT, TA>("WT", &[()], &[TA(1), TA(2)]);
    u.wide::<WT, TB>("WT", &[()], &[TB(3), TB(4)]);
    u.wide::<WT, TC>("WT", &[()], &[TC(5), TC(6)]);
    let nk: Vec<(Vec<u8>, Option<String>)> = vec![
        (vec![], None),
        (vec![], Some(String::new())),
        (vec![0], None),
        (vec![], Some("\u{0}".into())),
        (vec![0xFF], Some("a".into())),
        (vec![0xFF, 1], None),
        (vec![1], Some("a".into())),
        (vec![1, 1], None),
    ];
    u.wide::<WN, NA>("WN", &nk, &[NA(i64::MIN), NA(-1), NA(0)]);
    u.wide::<WN, NB>("WN", &nk, &[NB((0, vec![])), NB((9, vec![String::new(), "a".into()]))]);

    let belems: Vec<Vec<u8>> = vec![
        vec![],
        vec![0],
        vec![0xFF],
        vec![0xFF, 0xFF],
        b"a".to_vec(),
        vec![7; 5000],
    ];
    u.set::<S1>("S1", &bk, &belems);
    u.set::<S1B>("S1B", &bk[..8], &belems[..3]);
    u.set::<S2>("S2", &[()], &sk);
    let s3e: Vec<(u8, Vec<u8>)> =
        vec![(0, vec![]), (0, vec![0]), (255, vec![0xFF, 0xFF]), (1, vec![9; 3000])];
    u.set::<S3>("S3", &sk, &s3e);
    let s4k: Vec<(Vec<u8>, Vec<u8>)> = vec![
        (vec![], vec![]),
        (vec![], vec![0]),
        (vec![0], vec![]),
        (vec![0xFF], vec![0xFF]),
        (vec![0xFF, 0xFF], vec![]),
        (vec![], vec![0xFF, 0xFF]),
    ];
    u.set::<S4>("S4", &s4k, &[()]);
    let s5k: Vec<[u8; 2]> = vec![
        [0, 0],
        [0, 1],
        [0, 0xFF],
        [1, 0],
        [0xFE, 0xFF],
        [0xFF, 0],
        [0xFF, 0xFE],
        [0xFF, 0xFF],
    ];
    let s5e: Vec<[u8; 1]> = vec![[0], [1], [0xFF]];
    u.set::<S5>("S5", &s5k, &s5e);
    u
}

/// The small universe of the history search: cells chosen to collide as much
/// as the scheme allows (same key under two value types, the same bytes as key
/// in two columns, as key and as element, empty encodings, 0xFF neighbours).
fn small_universe<D: KvDatabase>() -> Universe<D> {
    let mut u = Universe::new();
    u.wide::<WP, PA>("WP", &[vec![], vec![0xFF]], &[PA(0), PA(1)]);
    u.wide::<WP, PB>("WP", &[vec![]], &[PB(String::new()), PB("v".into())]);
    u.wide::<WP2, PA>("WP2", &[vec![]], &[PA(0), PA(1)]);
    u.wide::<WU, UA>("WU", &[()], &[UA(0), UA(1)]);
    u.wide::<WT, TA>("WT", &[()], &[TA(1), TA(2)]);
    u.wide::<WT, TB>("WT", &[()], &[TB(1), TB(2)]);
    u.set::<S1>("S1", &[vec![], vec![0xFF]], &[vec![], vec![0xFF]]);
    u.set::<S1B>("S1B", &[vec![]], &[vec![]]);
    u.set::<S2>("S2", &[()], &[String::new(), "a".into()]);
    u.set::<S5>("S5", &[[0xFE, 0xFF], [0xFF, 0x00]], &[[0xFF]]);
    u
}

// ---------------------------------------------------------------------------
// backends
// ---------------------------------------------------------------------------

pub trait Backend: KvDatabase {
    const NAME: &'static str;
    fn open_at(p: &Path) -> Self;
}
impl Backend for RocksDB {
    const NAME: &'static str = "rocksdb";
    fn open_at(p: &Path) -> Self {
        RocksDB::open(p, Plugin::default()).expect("open rocksdb")
    }
}
impl Backend for Fjall {
    const NAME: &'static str = "fjall";
    fn open_at(p: &Path) -> Self {
        Fjall::open(p, Plugin::default()).expect("open fjall")
    }
}

fn scratch_root() -> PathBuf {
    let base = if Path::new("/dev/shm").is_dir() {
        PathBuf::from("/dev/shm")
    } else {
        std::env::temp_dir()
    };
    base.join(format!("vkv-{}", std::process::id()))
}

// ---------------------------------------------------------------------------
// the rig: database + reference model
// ---------------------------------------------------------------------------

#[derive(Clone, Debug, PartialEq)]
pub enum Step {
    /// one committed batch: (cell, value) operations in order; `buffered[i]`
    /// says whether operation i goes through a serialization buffer
    Commit { ops: Vec<(usize, Option<usize>)>, buffered: Vec<bool> },
    /// a batch that is filled and dropped without commit
    Abandon { ops: Vec<(usize, Option<usize>)>, buffered: bool },
    Reopen,
    /// reopen, and do not read anything before the next step (columns /
    /// keyspaces are resolved lazily: the next write is the first to touch
    /// them in the new session)
    ReopenUntouched,
}

fn step_json(s: &Step) -> Value {
    match s {
        Step::Commit { ops, buffered } => json!({"commit": ops.iter().map(|(c, v)| json!([c, v])).collect::<Vec<_>>(), "buffered": buffered}),
        Step::Abandon { ops, buffered } => json!({"abandon": ops.iter().map(|(c, v)| json!([c, v])).collect::<Vec<_>>(), "buffered": buffered}),
        Step::Reopen => json!("reopen"),
        Step::ReopenUntouched => json!("reopen-untouched"),
    }
}

fn step_from_json(v: &Value) -> Step {
    let ops = |a: &Value| -> Vec<(usize, Option<usize>)> {
        a.as_array()
            .unwrap()
            .iter()
            .map(|p| (p[0].as_u64().unwrap() as usize, p[1].as_u64().map(|x| x as usize)))
            .collect()
    };
    if v.as_str() == Some("reopen") {
        Step::Reopen
    } else if v.as_str() == Some("reopen-untouched") {
        Step::ReopenUntouched
    } else if let Some(c) = v.get("commit") {
        Step::Commit {
            ops: ops(c),
            buffered: v["buffered"].as_array().unwrap().iter().map(|b| b.as_bool().unwrap()).collect(),
        }
    } else {
        Step::Abandon { ops: ops(&v["abandon"]), buffered: v["buffered"].as_bool().unwrap() }
    }
}

pub struct Rig<D: Backend> {
    uni: Universe<D>,
    path: PathBuf,
    db: Option<D>,
    model: Vec<Option<usize>>,
    /// cells possibly non-absent in the store (for the reset)
    touched: BTreeSet<usize>,
    pub reads: u64,
    pub scans: u64,
    pub commits: u64,
    pub reopens: u64,
    verify_all: bool,
    base: PathBuf,
    generation: u64,
    /// closes that did not return (third-party shutdown hang)
    pub close_hangs: u64,
}

#[derive(Debug, Clone)]
pub struct Mismatch {
    pub what: String,
}

impl<D: Backend> Rig<D> {
    fn new(uni: Universe<D>, path: PathBuf) -> Self {
        let path_base = path.clone();
        let path = path.join("g0");
        let _ = std::fs::remove_dir_all(&path_base);
        std::fs::create_dir_all(&path).unwrap();
        let db = D::open_at(&path);
        let n = uni.cells.len();
        Self {
            uni,
            path,
            db: Some(db),
            model: vec![None; n],
            touched: BTreeSet::new(),
            reads: 0,
            scans: 0,
            commits: 0,
            reopens: 0,
            verify_all: true,
            base: path_base,
            generation: 0,
            close_hangs: 0,
        }
    }

    fn db(&self) -> &D { self.db.as_ref().unwrap() }

    /// Closes the database (drops the last handle) on a helper thread and
    /// waits for it. Returns false if the backend's own shutdown does not
    /// return within 30 s (observed once in ~10^5 closes with Fjall: its
    /// `Database::drop` blocks sending to its worker pool) — the directory is
    /// then abandoned, never reused.
    fn close(&mut self) -> bool {
        let Some(db) = self.db.take() else { return true };
        let (tx, rx) = std::sync::mpsc::channel::<()>();
        std::thread::spawn(move || {
            drop(db);
            let _ = tx.send(());
        });
        if rx.recv_timeout(std::time::Duration::from_secs(30)).is_ok() {
            return true;
        }
        self.close_hangs += 1;
        // a new directory for everything that follows
        self.generation += 1;
        self.path = self.base.join(format!("g{}", self.generation));
        false
    }

    fn fill(&self, ops: &[(usize, Option<usize>)], buffered: &[bool]) -> D::WriteBatch {
        let mut batch = self.db().write_batch();
        let mut i = 0;
        while i < ops.len() {
            if buffered[i] {
                // a run of buffered operations shares one buffer
                let mut w = Wr::<D>::Buffered(self.db().serialization_buffer());
                while i < ops.len() && buffered[i] {
                    self.uni.cells[ops[i].0].write(&mut w, ops[i].1);
                    i += 1;
                }
                let Wr::Buffered(b) = w else { unreachable!() };
                batch.consume_serialization_buffer(b);
            } else {
                let mut w = Wr::<D>::Direct(batch);
                self.uni.cells[ops[i].0].write(&mut w, ops[i].1);
                let Wr::Direct(b) = w else { unreachable!() };
                batch = b;
                i += 1;
            }
        }
        batch
    }

    /// Applies one step to the store and the model; `check_invisible` verifies
    /// the affected cells before the commit (uncommitted batches are
    /// invisible).
    fn apply(&mut self, s: &Step, check_invisible: bool) -> Result<(), Mismatch> {
        match s {
            Step::Commit { ops, buffered } => {
                let batch = self.fill(ops, buffered);
                if check_invisible {
                    self.verify_cells(&ops.iter().map(|o| o.0).collect::<Vec<_>>())
                        .map_err(|m| Mismatch { what: format!("uncommitted batch visible: {}", m.what) })?;
                }
                batch.commit();
                self.commits += 1;
                for (c, v) in ops {
                    self.model[*c] = *v;
                    self.touched.insert(*c);
                }
            }
            Step::Abandon { ops, buffered } => {
                let batch = self.fill(ops, &vec![*buffered; ops.len()]);
                drop(batch);
            }
            Step::Reopen | Step::ReopenUntouched => {
                if !self.close() {
                    // nothing can be said about this history any more
                    std::fs::create_dir_all(&self.path).unwrap();
                    self.db = Some(D::open_at(&self.path));
                    for m in &mut self.model {
                        *m = None;
                    }
                    self.touched.clear();
                    return Err(Mismatch { what: "SKIP: the backend's close did not return".into() });
                }
                self.db = Some(D::open_at(&self.path));
                self.reopens += 1;
            }
        }
        Ok(())
    }

    fn verify_cells(&mut self, cells: &[usize]) -> Result<(), Mismatch> {
        let mut groups = BTreeSet::new();
        for &c in cells {
            if let Some((g, _)) = self.uni.cells[c].member() {
                groups.insert(g);
                continue;
            }
            self.verify_wide(c)?;
        }
        for g in groups {
            self.verify_group(g)?;
        }
        Ok(())
    }

    fn verify_wide(&mut self, c: usize) -> Result<(), Mismatch> {
        let cell = &self.uni.cells[c];
        let Some(got) = cell.read(self.db.as_ref().unwrap()) else { return Ok(()) };
        self.reads += 1;
        let want = self.model[c];
        match got {
            Ok(g) if g == want => Ok(()),
            Ok(g) => Err(Mismatch {
                what: format!("point read of {}: value #{g:?}, committed #{want:?}", cell.id()),
            }),
            Err(s) => Err(Mismatch {
                what: format!("point read of {}: foreign value {s}, committed #{want:?}", cell.id()),
            }),
        }
    }

    fn verify_group(&mut self, g: usize) -> Result<(), Mismatch> {
        let got = self.uni.groups[g].scan(self.db.as_ref().unwrap());
        self.scans += 1;
        let mut want: Vec<String> = self.uni.members[g]
            .iter()
            .filter(|(i, _)| self.model[*i].is_some())
            .map(|(_, e)| e.clone())
            .collect();
        want.sort();
        if got == want {
            Ok(())
        } else {
            let sh = |v: &Vec<String>| v.iter().map(|s| short_str(s.clone())).collect::<Vec<_>>().join(", ");
            Err(Mismatch {
                what: format!(
                    "member scan of {}: got {{{}}}, committed {{{}}}",
                    self.uni.groups[g].id(),
                    sh(&got),
                    sh(&want)
                ),
            })
        }
    }

    /// every cell and every group of the universe
    fn verify(&mut self) -> Result<(), Mismatch> {
        for c in 0..self.uni.cells.len() {
            self.verify_wide(c)?;
        }
        for g in 0..self.uni.groups.len() {
            self.verify_group(g)?;
        }
        Ok(())
    }

    /// back to the empty content (one committed batch of deletes), same files
    fn reset(&mut self) {
        if self.touched.is_empty() {
            return;
        }
        let ops: Vec<(usize, Option<usize>)> = self.touched.iter().map(|c| (*c, None)).collect();
        let n = ops.len();
        self.fill(&ops, &vec![false; n]).commit();
        self.commits += 1;
        for (c, _) in ops {
            self.model[c] = None;
        }
        self.touched.clear();
    }

    /// a brand-new database directory
    fn fresh(&mut self) {
        let _ = self.close();
        let _ = std::fs::remove_dir_all(&self.path);
        std::fs::create_dir_all(&self.path).unwrap();
        self.db = Some(D::open_at(&self.path));
        for m in &mut self.model {
            *m = None;
        }
        self.touched.clear();
    }

    fn run(&mut self, steps: &[Step]) -> Result<(), (usize, Mismatch)> {
        for (i, s) in steps.iter().enumerate() {
            // right after an untouched reopen nothing is read before the
            // commit either
            let untouched = i > 0 && steps[i - 1] == Step::ReopenUntouched;
            self.apply(s, !untouched).map_err(|m| (i, m))?;
            if *s == Step::ReopenUntouched && i + 1 < steps.len() {
                continue;
            }
            if self.verify_all {
                self.verify().map_err(|m| (i, m))?;
            }
        }
        Ok(())
    }
}

// ---------------------------------------------------------------------------
// the exploration
// ---------------------------------------------------------------------------

struct Out {
    /// histories / sweeps abandoned because the backend's close hung
    skipped: u64,
    evaluations: u64,
    distinct: BTreeSet<String>,
    violations: Vec<Value>,
    caps: Vec<String>,
    parts: Vec<Value>,
}

impl Out {
    fn violation(&mut self, backend: &str, part: &str, uni: &str, steps: &[Step], at: usize, m: &Mismatch, ids: Vec<String>) {
        if self.violations.len() >= 8 {
            return;
        }
        self.violations.push(json!({
            "what": format!("[{backend}/{part}] after step {at}: {}", m.what),
            "replay": {
                "check": "c11", "backend": backend, "universe": uni,
                "steps": steps.iter().map(step_json).collect::<Vec<_>>(),
                "cells": ids,
            }
        }));
    }
}

fn ids<D: Backend>(r: &Rig<D>, steps: &[Step]) -> Vec<String> {
    let mut s = BTreeSet::new();
    for st in steps {
        match st {
            Step::Commit { ops, .. } | Step::Abandon { ops, .. } => {
                for (c, _) in ops {
                    s.insert(format!("{c}={}", r.uni.cells[*c].id()));
                }
            }
            Step::Reopen | Step::ReopenUntouched => {}
        }
    }
    s.into_iter().collect()
}

/// Part A: isolation sweep over the large universe.
///
/// Cells are written one per batch in order `order`; after EVERY write the
/// whole universe is read back, so every later cell is checked against every
/// earlier one in a growing context; then every cell is deleted and
/// re-written alone with the whole universe re-read; reopen points in
/// between; finally everything is written / deleted in single batches.
fn sweep<D: Backend>(out: &mut Out, rich: bool, reverse: bool, buffered: bool) {
    let uni = big_universe::<D>(rich);
    let n = uni.cells.len();
    let groups = uni.groups.len();
    let root = scratch_root().join(format!("sweep-{}-{}", reverse as u8, buffered as u8));
    let mut r = Rig::<D>::new(uni, root.clone());
    let mut steps: Vec<Step> = Vec::new();
    let mut order: Vec<usize> = (0..n).collect();
    if reverse {
        order.reverse();
    }
    let t0 = Instant::now();
    let fail = |out: &mut Out, r: &Rig<D>, steps: &[Step], m: Mismatch| {
        out.violation(D::NAME, "sweep", if rich { "big-rich" } else { "big" }, steps, steps.len().saturating_sub(1), &m, ids(r, &steps[steps.len().saturating_sub(1)..]));
    };
    macro_rules! step {
        ($s:expr) => {{
            let s = $s;
            steps.push(s.clone());
            let res = r.apply(&s, false).and_then(|_| r.verify());
            out.evaluations += 1;
            if let Err(m) = res {
                if m.what.starts_with("SKIP:") {
                    out.skipped += 1;
                } else {
                    fail(out, &r, &steps, m);
                }
                let _ = std::fs::remove_dir_all(&root);
                return;
            }
        }};
    }
    if let Err(m) = r.verify() {
        fail(out, &r, &steps, m);
        return;
    }
    // 1. populate one cell per batch
    for (j, &c) in order.iter().enumerate() {
        let v = j % r.uni.cells[c].domain();
        step!(Step::Commit { ops: vec![(c, Some(v))], buffered: vec![buffered] });
    }
    step!(Step::Reopen);
    // 2. delete / rewrite each cell in the full context
    for &c in &order {
        step!(Step::Commit { ops: vec![(c, None)], buffered: vec![buffered] });
        let d = r.uni.cells[c].domain();
        step!(Step::Commit { ops: vec![(c, Some(d - 1))], buffered: vec![!buffered] });
    }
    step!(Step::Reopen);
    // 3. delete everything in one batch, reopen, write everything in one batch
    step!(Step::Commit { ops: order.iter().map(|c| (*c, None)).collect(), buffered: vec![buffered; n] });
    step!(Step::Reopen);
    step!(Step::Commit {
        ops: order.iter().map(|c| (*c, Some(0))).collect(),
        buffered: (0..n).map(|i| (i % 3 == 0) ^ buffered).collect()
    });
    step!(Step::Reopen);
    // 4. a batch that writes and deletes the same cells (last operation wins)
    step!(Step::Commit {
        ops: order.iter().flat_map(|c| [(*c, None), (*c, Some(0)), (*c, None)]).collect(),
        buffered: (0..3 * n).map(|i| (i % 2 == 0) ^ buffered).collect()
    });
    step!(Step::Reopen);
    out.parts.push(json!({
        "part": "sweep", "backend": D::NAME, "reverse": reverse, "buffered_first": buffered, "rich": rich,
        "cells": n, "scan_groups": groups, "steps": steps.len(),
        "point_reads": r.reads, "scans": r.scans, "commits": r.commits, "reopens": r.reopens,
        "wall_s": t0.elapsed().as_secs_f64(),
    }));
    for c in 0..n {
        out.distinct.insert(format!("{}:{}", D::NAME, r.uni.cells[c].id()));
    }
    let _ = r.close();
    drop(r);
    let _ = std::fs::remove_dir_all(&root);
}

/// All single operations on the small universe.
fn single_ops<D: Backend>(u: &Universe<D>) -> Vec<(usize, Option<usize>)> {
    let mut v = vec![];
    for (i, c) in u.cells.iter().enumerate() {
        for x in 0..c.domain() {
            v.push((i, Some(x)));
        }
        v.push((i, None));
    }
    v
}

/// Part B: every history of batches up to the bound on the small universe,
/// each executed on the real backend from the empty content; the whole
/// universe is read back after every step.
fn histories<D: Backend>(out: &mut Out, thorough: bool, slice: usize, slices: usize) {
    let uni = small_universe::<D>();
    let ops = single_ops(&uni);
    let n_ops = ops.len();
    let root = scratch_root().join(format!("hist-{slice}"));
    let mut r = Rig::<D>::new(uni, root.clone());
    let t0 = Instant::now();
    let mut paths = 0u64;
    let mut shapes: BTreeSet<String> = BTreeSet::new();

    // the alphabet of steps
    let mut singles: Vec<Step> = vec![];
    for (i, o) in ops.iter().enumerate() {
        singles.push(Step::Commit { ops: vec![*o], buffered: vec![i % 2 == 0] });
    }
    let mut pairs: Vec<Step> = vec![];
    for a in 0..n_ops {
        for b in 0..n_ops {
            // mixed write paths inside one batch: (direct, buffered) and (buffered, direct)
            pairs.push(Step::Commit { ops: vec![ops[a], ops[b]], buffered: vec![(a + b) % 2 == 0, a % 2 == 0] });
        }
    }
    let abandons: Vec<Step> = ops
        .iter()
        .enumerate()
        .filter(|(_, o)| o.1 != Some(1))
        .map(|(i, o)| Step::Abandon { ops: vec![*o], buffered: i % 2 == 1 })
        .collect();

    let mut k = 0usize;
    let mut run = |out: &mut Out, r: &mut Rig<D>, steps: Vec<Step>, paths: &mut u64| {
        k += 1;
        if k % slices != slice {
            return;
        }
        r.reset();
        *paths += 1;
        out.evaluations += 1;
        if *paths % 4000 == 0 {
            r.fresh();
        }
        if let Err((at, m)) = r.run(&steps) {
            if m.what.starts_with("SKIP:") {
                out.skipped += 1;
            } else {
                let id = ids(r, &steps);
                out.violation(D::NAME, "histories", "small", &steps, at, &m, id);
                r.fresh();
            }
        }
    };

    // B1: every sequence of <= 3 single-operation batches
    for a in &singles {
        run(out, &mut r, vec![a.clone()], &mut paths);
        for b in &singles {
            run(out, &mut r, vec![a.clone(), b.clone()], &mut paths);
            if thorough || true {
                for c in &singles {
                    run(out, &mut r, vec![a.clone(), b.clone(), c.clone()], &mut paths);
                }
            }
        }
    }
    shapes.insert("single;single;single".into());
    // B2: two-operation batches before / after a single-operation batch
    for p in &pairs {
        run(out, &mut r, vec![p.clone()], &mut paths);
        for s in &singles {
            run(out, &mut r, vec![s.clone(), p.clone()], &mut paths);
            run(out, &mut r, vec![p.clone(), s.clone()], &mut paths);
        }
    }
    shapes.insert("pair;single / single;pair".into());
    // B3: abandoned batches anywhere in a two-step history
    for x in &abandons {
        run(out, &mut r, vec![x.clone()], &mut paths);
        for s in &singles {
            run(out, &mut r, vec![s.clone(), x.clone()], &mut paths);
            run(out, &mut r, vec![x.clone(), s.clone()], &mut paths);
        }
    }
    shapes.insert("abandon anywhere".into());
    // B4: reopen after every step of every history of <= 2 single batches
    // (thorough: also around pairs)
    for a in &singles {
        run(out, &mut r, vec![a.clone(), Step::Reopen], &mut paths);
        for b in &singles {
            let (Step::Commit { ops: oa, .. }, Step::Commit { ops: ob, .. }) = (a, b) else { unreachable!() };
            // quick: second operation on the same cell or its scan group / key twins
            let related = oa[0].0 == ob[0].0
                || r.uni.cells[oa[0].0].member().map(|m| m.0) == r.uni.cells[ob[0].0].member().map(|m| m.0)
                    && r.uni.cells[oa[0].0].member().is_some();
            if !thorough && !related {
                continue;
            }
            run(out, &mut r, vec![a.clone(), Step::Reopen, b.clone(), Step::Reopen], &mut paths);
            // the first operation after a reopen through the other write path
            // as well (column families / keyspaces are resolved lazily)
            let flip = |s: &Step| match s {
                Step::Commit { ops, buffered } => {
                    Step::Commit { ops: ops.clone(), buffered: buffered.iter().map(|b| !b).collect() }
                }
                other => other.clone(),
            };
            run(out, &mut r, vec![a.clone(), Step::Reopen, flip(b), Step::Reopen], &mut paths);
            run(out, &mut r, vec![flip(a), Step::Reopen, b.clone(), Step::Reopen], &mut paths);
            run(out, &mut r, vec![a.clone(), Step::ReopenUntouched, b.clone(), Step::Reopen], &mut paths);
            run(out, &mut r, vec![a.clone(), Step::ReopenUntouched, flip(b), Step::Reopen], &mut paths);
            if thorough {
                run(out, &mut r, vec![a.clone(), b.clone(), Step::Reopen], &mut paths);
            }
        }
    }
    shapes.insert("single;reopen;single;reopen".into());
    if thorough {
        for p in &pairs {
            run(out, &mut r, vec![p.clone(), Step::Reopen], &mut paths);
        }
        shapes.insert("pair;reopen".into());
    }
    out.parts.push(json!({
        "part": "histories", "backend": D::NAME, "slice": slice, "of": slices,
        "cells": r.uni.cells.len(), "scan_groups": r.uni.groups.len(), "single_ops": n_ops, "pair_batches": pairs.len(),
        "histories": paths, "shapes": shapes.into_iter().collect::<Vec<_>>(),
        "point_reads": r.reads, "scans": r.scans, "commits": r.commits, "reopens": r.reopens,
        "wall_s": t0.elapsed().as_secs_f64(),
    }));
    out.distinct.insert(format!("{}:hist-slice-{slice}", D::NAME));
    let _ = r.close();
    drop(r);
    let _ = std::fs::remove_dir_all(&root);
}

fn run_backend<D: Backend>(tier: &str, part: &str) -> Value {
    let thorough = tier == "thorough";
    let mut out = Out { skipped: 0, evaluations: 0, distinct: BTreeSet::new(), violations: vec![], caps: vec![], parts: vec![] };
    let t0 = Instant::now();
    let mut it = part.split(':');
    match it.next().unwrap_or("") {
        "sweep" => {
            let v: usize = it.next().and_then(|s| s.parse().ok()).unwrap_or(0);
            sweep::<D>(&mut out, thorough, v & 1 == 1, v & 2 == 2);
        }
        "hist" => {
            let s: usize = it.next().and_then(|s| s.parse().ok()).unwrap_or(0);
            let n: usize = it.next().and_then(|s| s.parse().ok()).unwrap_or(1);
            histories::<D>(&mut out, thorough, s, n);
        }
        _ => panic!("unknown part"),
    }
    let _ = std::fs::remove_dir_all(scratch_root());
    json!({
        "backend": D::NAME, "part": part,
        "evaluations": out.evaluations,
        "distinct": out.distinct.into_iter().collect::<Vec<_>>(),
        "violations": out.violations,
        "caps": if out.skipped > 0 {
            vec![format!(
                "{} histories skipped: the backend's own close ({}::drop) did not return within 30 s",
                out.skipped,
                D::NAME
            )]
        } else {
            out.caps
        },
        "parts": out.parts,
        "wall_s": t0.elapsed().as_secs_f64(),
    })
}

fn replay_backend<D: Backend>(r: &Value) -> i32 {
    let uni = match r["universe"].as_str().unwrap_or("small") {
        "small" => small_universe::<D>(),
        "big" => big_universe::<D>(false),
        _ => big_universe::<D>(true),
    };
    let steps: Vec<Step> = r["steps"].as_array().unwrap().iter().map(step_from_json).collect();
    let root = scratch_root().join("replay");
    let mut rig = Rig::<D>::new(uni, root.clone());
    let res = rig.run(&steps);
    let _ = rig.close();
    drop(rig);
    let _ = std::fs::remove_dir_all(scratch_root());
    match res {
        Ok(()) => {
            println!("replay: {} steps on {}: store == reference model after every step", steps.len(), D::NAME);
            0
        }
        Err((at, m)) => {
            println!("replay: after step {at}: {}", m.what);
            1
        }
    }
}

fn main() {
    let a: Vec<String> = std::env::args().collect();
    match a.get(1).map(String::as_str) {
        Some("run") => {
            let v = match a[2].as_str() {
                "rocksdb" => run_backend::<RocksDB>(&a[3], &a[4]),
                "fjall" => run_backend::<Fjall>(&a[3], &a[4]),
                _ => panic!("backend"),
            };
            println!("RESULT {}", serde_json::to_string(&v).unwrap());
        }
        Some("replay") => {
            let s = std::fs::read_to_string(&a[2]).expect("read");
            let v: Value = serde_json::from_str(&s).expect("json");
            let r = if v.get("replay").is_some() { v["replay"].clone() } else { v };
            let code = match r["backend"].as_str().unwrap_or("") {
                "rocksdb" => replay_backend::<RocksDB>(&r),
                _ => replay_backend::<Fjall>(&r),
            };
            std::process::exit(code);
        }
        _ => {
            eprintln!("usage: vkv run <rocksdb|fjall> <tier> <part> | vkv replay <file>");
            std::process::exit(2);
        }
    }
}
