//! C12/C13/C14 for the optional `smallvec` / `bitvec` feature builds of the
//! serialize, stable_hash and stable_type_id crates. Own binary: enabling the
//! features in the main harness would rebuild the engine with another
//! feature set. usage: vopt names | vopt <ser|hash> <type index> | vopt ids   (prints `RESULT {json}`)
fn esc(s: &str) -> String {
    let mut o = String::new();
    for c in s.chars() {
        match c {
            '"' => o.push_str("\\\""),
            '\\' => o.push_str("\\\\"),
            '\n' => o.push_str("\\n"),
            c if (c as u32) < 0x20 => o.push_str(&format!("\\u{:04x}", c as u32)),
            c => o.push(c),
        }
    }
    o
}

fn main() {
    if std::env::var("VERIF_TIER").as_deref() == Ok("thorough") {
        vt::vshape::RICH.store(true, std::sync::atomic::Ordering::Relaxed);
    }
    let what = std::env::args().nth(1).unwrap_or_default();
    let idx: usize = std::env::args().nth(2).and_then(|s| s.parse().ok()).unwrap_or(0);
    match what.as_str() {
        "names" => {
            let items: Vec<String> =
                vt::opt::type_names().iter().map(|n| format!("\"{}\"", esc(n))).collect();
            println!("RESULT {{\"names\":[{}]}}", items.join(","));
        }
        "ser" | "hash" => {
            let ctx = if what == "ser" { vt::opt::ser_ctx(idx) } else { vt::opt::hash_ctx(idx) };
            let bad: Vec<String> = ctx.bad.iter().map(|b| format!("\"{}\"", esc(b))).collect();
            println!(
                "RESULT {{\"types\":{},\"values\":{},\"pairs\":{},\"triples\":{},\"variants\":{},\"digest\":\"{:032x}\",\"bad\":[{}]}}",
                ctx.types, ctx.values, ctx.pairs, ctx.triples, ctx.variants, ctx.digest, bad.join(",")
            );
        }
        "ids" => {
            let ids = vt::opt::type_ids();
            let items: Vec<String> =
                ids.iter().map(|(n, i)| format!("[\"{}\",\"{:032x}\"]", esc(n), i)).collect();
            println!("RESULT {{\"ids\":[{}]}}", items.join(","));
        }
        _ => {
            eprintln!("usage: vopt <ser|hash|ids>");
            std::process::exit(2);
        }
    }
}
