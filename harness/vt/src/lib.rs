//! vt — the constructor-closed value / type universe of C12, C13, C14
//! (separate crate: depends only on the serialize / stable_hash /
//! stable_type_id crates of the repository).
#![allow(clippy::all)]

pub mod vshape;
pub mod vtypes_gen;

pub use vshape::Ctx;

fn big_stack<T: Send + 'static>(f: impl FnOnce() -> T + Send + 'static) -> T {
    std::thread::Builder::new()
        .stack_size(256 << 20)
        .spawn(f)
        .unwrap()
        .join()
        .unwrap()
}

pub fn ser_ctx() -> Ctx {
    big_stack(|| {
        let mut ctx = Ctx::default();
        vtypes_gen::run_ser(&mut ctx);
        ctx
    })
}

pub fn hash_ctx() -> Ctx {
    big_stack(|| {
        let mut ctx = Ctx::default();
        vtypes_gen::run_hash(&mut ctx);
        vshape::check_histories(&mut ctx);
        ctx
    })
}

pub fn type_ids() -> Vec<(&'static str, u128)> { vtypes_gen::type_ids() }

#[cfg(feature = "opt")]
pub mod opt;
