//! vt — the constructor-closed value / type universe of C12, C13, C14
//! (separate crate: depends only on the serialize / stable_hash /
//! stable_type_id crates of the repository).
#![allow(clippy::all)]

pub mod vshape;
pub mod vtypes_gen;

pub use vshape::Ctx;

fn big_stack<T: Send + 'static>(f: impl FnOnce() -> T + Send + 'static) -> T {
    std::thread::Builder::new()
        .stack_size(256 << 20)
        .spawn(f)
        .unwrap()
        .join()
        .unwrap()
}

const PARTS: usize = 16;

fn merge(into: &mut Ctx, c: Ctx) {
    into.types += c.types;
    into.values += c.values;
    into.pairs += c.pairs;
    into.triples += c.triples;
    into.variants += c.variants;
    into.digest = into.digest.wrapping_add(c.digest);
    for b in c.bad {
        into.fail(b);
    }
}

fn in_parts(f: fn(&mut Ctx, usize, usize)) -> Ctx {
    let rich = vshape::RICH.load(std::sync::atomic::Ordering::Relaxed);
    let hs: Vec<_> = (0..PARTS)
        .map(|part| {
            std::thread::Builder::new()
                .stack_size(256 << 20)
                .spawn(move || {
                    vshape::RICH.store(rich, std::sync::atomic::Ordering::Relaxed);
                    let mut ctx = Ctx::default();
                    f(&mut ctx, part, PARTS);
                    ctx
                })
                .unwrap()
        })
        .collect();
    let mut all = Ctx::default();
    for h in hs {
        merge(&mut all, h.join().unwrap());
    }
    all
}

/// C12 over the whole universe (the type list is split over 16 threads)
pub fn ser_ctx() -> Ctx { in_parts(vtypes_gen::run_ser) }

/// C13 over the whole universe
pub fn hash_ctx() -> Ctx {
    let mut all = in_parts(vtypes_gen::run_hash);
    let extra = big_stack(|| {
        let mut ctx = Ctx::default();
        vshape::check_histories(&mut ctx);
        ctx
    });
    merge(&mut all, extra);
    all
}

pub fn type_ids() -> Vec<(&'static str, u128)> { vtypes_gen::type_ids() }

#[cfg(feature = "opt")]
pub mod opt;
