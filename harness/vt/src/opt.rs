//! The `smallvec` / `bitvec` feature builds (C12/C13/C14 "with and without the
//! optional features"): value domains for `SmallVec<[T; N]>` (inline, at the
//! inline/heap boundary, spilled, spilled-then-shrunk) and `BitVec<T, O>`
//! (every bit string to length 10 plus boundary lengths around 16/32/64 bits,
//! for every storage width and both bit orders, aligned and with a non-zero
//! head offset).

use bitvec::prelude::*;
use qbice::Identifiable;
use smallvec::SmallVec;

use crate::vshape::{Ctx, Uni, check_hash, check_ser, take};

fn seqs<T: Uni>() -> Vec<Vec<T>> { <Vec<T> as Uni>::vals() }

macro_rules! small_uni {
    ($n:expr) => {
        impl<T: Uni> Uni for SmallVec<[T; $n]> {
            fn vals() -> Vec<Self> {
                let mut out: Vec<Self> =
                    seqs::<T>().into_iter().map(|v| v.into_iter().collect()).collect();
                // longer than every inline capacity used here
                let e = take::<T>(3);
                if !e.is_empty() {
                    let long: Self = (0..5).map(|i| e[i % e.len()].clone()).collect();
                    out.push(long);
                }
                out
            }

            fn eqv(&self, o: &Self) -> bool {
                self.len() == o.len() && self.iter().zip(o.iter()).all(|(a, b)| a.eqv(b))
            }

            fn variants(&self) -> Vec<Self> {
                let items: Vec<T> = self.iter().cloned().collect();
                let mut out = Vec::new();
                // spilled to the heap, then shrunk back to this content
                let mut a: Self = SmallVec::new();
                for x in &items {
                    a.push(x.clone());
                }
                if let Some(x) = items.first() {
                    for _ in 0..8 {
                        a.push(x.clone());
                    }
                    a.truncate(items.len());
                }
                out.push(a);
                out.push(SmallVec::from_vec(items.clone()));
                let mut c: Self = SmallVec::with_capacity(32);
                c.extend(items.iter().cloned());
                out.push(c);
                // built back to front
                let mut d: Self = SmallVec::new();
                for x in items.iter().rev() {
                    d.insert(0, x.clone());
                }
                out.push(d);
                out
            }
        }
    };
}
small_uni!(0);
small_uni!(1);
small_uni!(2);
small_uni!(4);

fn bit_strings() -> Vec<Vec<bool>> {
    let mut v: Vec<Vec<bool>> = Vec::new();
    // exhaustive to length 10
    for len in 0..=10usize {
        for m in 0u32..(1 << len) {
            v.push((0..len).map(|i| m >> i & 1 == 1).collect());
        }
    }
    // boundary lengths of every storage width, with the patterns that
    // distinguish byte / element order and varint boundaries
    for len in [15usize, 16, 17, 31, 32, 33, 63, 64, 65, 127, 128, 129] {
        v.push(vec![true; len]);
        v.push(vec![false; len]);
        v.push((0..len).map(|i| i % 2 == 0).collect());
        v.push((0..len).map(|i| i % 3 == 0).collect());
        for hot in [0usize, 6, 7, 8, 13, 14, 15, 16, len / 2, len - 2, len - 1] {
            if hot < len {
                v.push((0..len).map(|i| i == hot).collect());
                v.push((0..len).map(|i| i != hot).collect());
            }
        }
    }
    v
}

macro_rules! bit_uni {
    ($t:ty, $o:ty) => {
        impl Uni for BitVec<$t, $o> {
            fn vals() -> Vec<Self> {
                bit_strings().into_iter().map(|b| b.into_iter().collect()).collect()
            }

            fn eqv(&self, o: &Self) -> bool { self == o }

            fn variants(&self) -> Vec<Self> {
                let mut out = Vec::new();
                // the same bits behind a non-zero head offset and with dirty
                // spare capacity
                for pad in [1usize, 3, 7, 9] {
                    let mut padded: Self = BitVec::new();
                    for i in 0..pad {
                        padded.push(i % 2 == 0);
                    }
                    padded.extend_from_bitslice(self.as_bitslice());
                    out.push(padded[pad..].to_bitvec());
                    let mut shifted = padded.clone();
                    shifted.drain(..pad);
                    out.push(shifted);
                }
                let mut dirty = self.clone();
                for _ in 0..11 {
                    dirty.push(true);
                }
                dirty.truncate(self.len());
                out.push(dirty);
                let mut cap: Self = BitVec::with_capacity(300);
                cap.extend_from_bitslice(self.as_bitslice());
                out.push(cap);
                out
            }
        }
    };
}
bit_uni!(u8, Lsb0);
bit_uni!(u8, Msb0);
bit_uni!(u16, Lsb0);
bit_uni!(u16, Msb0);
bit_uni!(u32, Lsb0);
bit_uni!(u32, Msb0);
bit_uni!(usize, Lsb0);
bit_uni!(usize, Msb0);

fn big_stack<T: Send + 'static>(f: impl FnOnce() -> T + Send + 'static) -> T {
    std::thread::Builder::new().stack_size(256 << 20).spawn(f).unwrap().join().unwrap()
}

type CheckFn = fn(&mut Ctx, &str);

macro_rules! type_table {
    ($f:ident) => {{
        let v: Vec<(&'static str, CheckFn)> = vec![
            ("SmallVec<[u8;2]>", $f::<SmallVec<[u8; 2]>>),
            ("SmallVec<[u8;0]>", $f::<SmallVec<[u8; 0]>>),
            ("SmallVec<[u16;1]>", $f::<SmallVec<[u16; 1]>>),
            ("SmallVec<[i64;4]>", $f::<SmallVec<[i64; 4]>>),
            ("SmallVec<[String;1]>", $f::<SmallVec<[String; 1]>>),
            ("SmallVec<[String;4]>", $f::<SmallVec<[String; 4]>>),
            ("SmallVec<[Option<u8>;2]>", $f::<SmallVec<[Option<u8>; 2]>>),
            ("SmallVec<[Vec<u8>;2]>", $f::<SmallVec<[Vec<u8>; 2]>>),
            ("SmallVec<[();2]>", $f::<SmallVec<[(); 2]>>),
            ("Vec<SmallVec<[u8;2]>>", $f::<Vec<SmallVec<[u8; 2]>>>),
            ("Option<SmallVec<[String;1]>>", $f::<Option<SmallVec<[String; 1]>>>),
            ("(SmallVec<[u8;2]>,u8)", $f::<(SmallVec<[u8; 2]>, u8)>),
            ("(SmallVec<[u8;2]>,SmallVec<[u8;2]>)", $f::<(SmallVec<[u8; 2]>, SmallVec<[u8; 2]>)>),
            ("SmallVec<[SmallVec<[u8;1]>;2]>", $f::<SmallVec<[SmallVec<[u8; 1]>; 2]>>),
            ("BitVec<u8,Lsb0>", $f::<BitVec<u8, Lsb0>>),
            ("BitVec<u8,Msb0>", $f::<BitVec<u8, Msb0>>),
            ("BitVec<u16,Lsb0>", $f::<BitVec<u16, Lsb0>>),
            ("BitVec<u16,Msb0>", $f::<BitVec<u16, Msb0>>),
            ("BitVec<u32,Lsb0>", $f::<BitVec<u32, Lsb0>>),
            ("BitVec<u32,Msb0>", $f::<BitVec<u32, Msb0>>),
            ("BitVec<usize,Lsb0>", $f::<BitVec<usize, Lsb0>>),
            ("BitVec<usize,Msb0>", $f::<BitVec<usize, Msb0>>),
            ("(BitVec<usize,Lsb0>,u8)", $f::<(BitVec<usize, Lsb0>, u8)>),
            ("Vec<BitVec<u8,Msb0>>", $f::<Vec<BitVec<u8, Msb0>>>),
            ("Option<BitVec<u16,Lsb0>>", $f::<Option<BitVec<u16, Lsb0>>>),
        ];
        v
    }};
}

pub fn type_names() -> Vec<&'static str> {
    type_table!(check_ser).into_iter().map(|(n, _)| n).collect()
}

/// C12 for the `idx`-th type of the table (one process per type: a decoder
/// that is out of step reads garbage lengths and aborts on allocation)
pub fn ser_ctx(idx: usize) -> Ctx {
    big_stack(move || {
        let mut ctx = Ctx::default();
        let (name, f) = type_table!(check_ser)[idx];
        f(&mut ctx, name);
        ctx
    })
}

pub fn hash_ctx(idx: usize) -> Ctx {
    big_stack(move || {
        let mut ctx = Ctx::default();
        let (name, f) = type_table!(check_hash)[idx];
        f(&mut ctx, name);
        ctx
    })
}

pub fn type_ids() -> Vec<(&'static str, u128)> {
    macro_rules! ids {
        ($($t:ty),* $(,)?) => { vec![$((stringify!($t), <$t as Identifiable>::STABLE_TYPE_ID.as_u128())),*] };
    }
    ids![
        SmallVec<[u8; 0]>, SmallVec<[u8; 1]>, SmallVec<[u8; 2]>, SmallVec<[u8; 3]>, SmallVec<[u16; 2]>,
        SmallVec<[String; 2]>, SmallVec<[[u8; 2]; 2]>, SmallVec<[[u8; 2]; 3]>, SmallVec<[[u8; 3]; 2]>,
        Vec<[u8; 2]>, Vec<u8>, [u8; 2], Vec<SmallVec<[u8; 2]>>, SmallVec<[Vec<u8>; 2]>,
        SmallVec<[SmallVec<[u8; 2]>; 1]>, SmallVec<[SmallVec<[u8; 1]>; 2]>, Option<SmallVec<[u8; 2]>>,
        SmallVec<[Option<u8>; 2]>,
        BitVec<u8, Lsb0>, BitVec<u8, Msb0>, BitVec<u16, Lsb0>, BitVec<u16, Msb0>, BitVec<u32, Lsb0>,
        BitVec<u32, Msb0>, BitVec<usize, Lsb0>, BitVec<usize, Msb0>, BitVec<u64, Lsb0>, BitVec<u64, Msb0>,
        Vec<BitVec<u8, Lsb0>>, Option<BitVec<u8, Lsb0>>, (BitVec<u8, Lsb0>, BitVec<u8, Msb0>),
        (BitVec<u8, Msb0>, BitVec<u8, Lsb0>), Lsb0, Msb0, (u8, Lsb0), (u8, Msb0), Vec<u8>, Vec<usize>, usize, u8,
    ]
}
