//! V-shape machinery shared by C12 (serialization round trips), C13 (stable
//! hashes) and C14 (type / query identities): a constructor-closed universe
//! of types with exhaustively enumerated small value domains.

use std::{
    borrow::Cow,
    collections::{BTreeMap, BTreeSet, HashMap, HashSet, LinkedList, VecDeque},
    fmt::Debug,
    rc::Rc,
    sync::Arc,
};

use qbice::{
    Decode, Encode, StableHash,
    serialize::{Decoder, Encoder, Plugin, PostcardDecoder, PostcardEncoder},
    stable_hash::{BuildStableHasher, SeededStableHasherBuilder, Sip128Hasher, StableHasher},
};

/// A member of the value universe.
pub trait Uni: Sized + Clone + Debug + 'static {
    /// all values of the (bounded) domain of this type
    fn vals() -> Vec<Self>;
    /// value equality (bit identity for floats)
    fn eqv(&self, o: &Self) -> bool;
    /// values equal to `self` that were constructed differently (other
    /// insertion order, capacity, ring-buffer layout, ...)
    fn variants(&self) -> Vec<Self> { Vec::new() }
    /// holds for a value that came out of the decoder (skipped fields of
    /// derived types are back at their default)
    fn decoded_ok(&self) -> bool { true }
}

fn lift<T: Uni, C>(items: &[T], rebuild: impl Fn(Vec<T>) -> C) -> Vec<C> {
    // replace one element at a time by each of its variants
    let mut out = Vec::new();
    for (i, it) in items.iter().enumerate().take(4) {
        for w in it.variants() {
            let mut v: Vec<T> = items.to_vec();
            v[i] = w;
            out.push(rebuild(v));
        }
    }
    out
}

pub fn take<T: Uni>(n: usize) -> Vec<T> {
    let n = if rich() { n * 2 } else { n };
    let v = T::vals();
    let len = v.len();
    if len <= n {
        return v;
    }
    // spread over the domain: first, last and evenly spaced ones
    (0..n).map(|i| v[i * (len - 1) / (n - 1)].clone()).collect()
}

macro_rules! uni_eq {
    ($t:ty, $vals:expr) => {
        impl Uni for $t {
            fn vals() -> Vec<Self> { $vals }

            fn eqv(&self, o: &Self) -> bool { self == o }
        }
    };
}

/// every value within +-2 of every 7-bit boundary, 0, +-1, MIN/MAX
macro_rules! int_vals {
    ($t:ty, $bits:expr, $signed:expr) => {{
        let mut v: Vec<$t> = Vec::new();
        let mut push = |x: i128| {
            if let Ok(y) = <$t>::try_from(x) {
                v.push(y);
            }
        };
        // thorough tier: +-32 around every 7-bit boundary and +-2 around
        // every power of two
        let delta: i128 = if rich() { 32 } else { 2 };
        for d in -delta..=delta {
            push(d);
            push(<$t>::MAX as i128 + d);
            push(<$t>::MIN as i128 + d);
            let mut k = 7;
            while k < $bits {
                let b = 1i128 << k;
                push(b + d);
                if $signed {
                    push(-b + d);
                    // zigzag boundaries
                    push(b / 2 + d);
                    push(-(b / 2) + d);
                }
                k += 7;
            }
        }
        if rich() {
            for k in 1..$bits {
                let b = 1i128 << k;
                for d in -2i128..=2 {
                    push(b + d);
                    if $signed {
                        push(-b + d);
                    }
                }
            }
        }
        // keep the first occurrence order (simplest values first)
        let mut seen = std::collections::HashSet::new();
        v.retain(|x| seen.insert(*x));
        v
    }};
}

uni_eq!(u8, (0..=u8::MAX).collect());
uni_eq!(i8, (i8::MIN..=i8::MAX).collect());
uni_eq!(bool, vec![false, true]);
uni_eq!(u16, (0..=u16::MAX).collect());
uni_eq!(i16, (i16::MIN..=i16::MAX).collect());
uni_eq!(u32, int_vals!(u32, 32, false));
uni_eq!(i32, int_vals!(i32, 32, true));
uni_eq!(u64, int_vals!(u64, 64, false));
uni_eq!(i64, int_vals!(i64, 64, true));
uni_eq!(usize, int_vals!(usize, 64, false));
uni_eq!(isize, int_vals!(isize, 64, true));

impl Uni for u128 {
    fn vals() -> Vec<Self> {
        let mut v = vec![0, 1, 2, u128::MAX, u128::MAX - 1];
        let mut k = 7;
        while k < 128 {
            let b = 1u128 << k;
            v.extend([b - 2, b - 1, b, b + 1, b + 2]);
            k += 7;
        }
        v
    }

    fn eqv(&self, o: &Self) -> bool { self == o }
}

impl Uni for i128 {
    fn vals() -> Vec<Self> {
        let mut v = vec![0, 1, -1, 2, -2, i128::MAX, i128::MIN, i128::MAX - 1, i128::MIN + 1];
        let mut k = 6;
        while k < 127 {
            let b = 1i128 << k;
            v.extend([b - 1, b, b + 1, -b - 1, -b, -b + 1]);
            k += 7;
        }
        v
    }

    fn eqv(&self, o: &Self) -> bool { self == o }
}

uni_eq!(
    char,
    vec![
        '\0', 'a', '\u{7f}', '\u{80}', '\u{7ff}', '\u{800}', '\u{ffff}',
        '\u{10000}', '\u{10ffff}', '\u{d7ff}', '\u{e000}'
    ]
);
uni_eq!(
    String,
    vec![
        String::new(),
        "a".into(),
        "ab".into(),
        "b".into(),
        "\u{80}".into(),
        "a\0".into(),
        "x".repeat(127),
        "x".repeat(128),
        "\u{10ffff}é".into()
    ]
);
uni_eq!((), vec![()]);
uni_eq!(
    std::time::Duration,
    vec![
        std::time::Duration::ZERO,
        std::time::Duration::new(0, 1),
        std::time::Duration::new(1, 0),
        std::time::Duration::new(127, 999_999_999),
        std::time::Duration::new(128, 128),
        std::time::Duration::MAX
    ]
);
uni_eq!(
    std::path::PathBuf,
    vec!["".into(), "a".into(), "/a/b".into(), "a/../b".into()]
);
uni_eq!(
    std::num::NonZeroU8,
    (1..=u8::MAX).map(|x| std::num::NonZeroU8::new(x).unwrap()).collect()
);
uni_eq!(
    std::num::NonZeroI32,
    <i32 as Uni>::vals()
        .into_iter()
        .filter_map(std::num::NonZeroI32::new)
        .collect()
);
uni_eq!(
    std::num::NonZeroU64,
    <u64 as Uni>::vals()
        .into_iter()
        .filter_map(std::num::NonZeroU64::new)
        .collect()
);

impl Uni for f32 {
    fn vals() -> Vec<Self> {
        vec![
            0.0, -0.0, 1.0, -1.0, f32::MIN, f32::MAX, f32::EPSILON,
            f32::INFINITY, f32::NEG_INFINITY, f32::NAN, f32::MIN_POSITIVE, 1.5e-40,
        ]
    }

    fn eqv(&self, o: &Self) -> bool { self.to_bits() == o.to_bits() }
}

impl Uni for f64 {
    fn vals() -> Vec<Self> {
        vec![
            0.0, -0.0, 1.0, -1.0, f64::MIN, f64::MAX, f64::EPSILON,
            f64::INFINITY, f64::NEG_INFINITY, f64::NAN, f64::MIN_POSITIVE, 1.5e-310,
        ]
    }

    fn eqv(&self, o: &Self) -> bool { self.to_bits() == o.to_bits() }
}

impl<T: Uni> Uni for Option<T> {
    fn vals() -> Vec<Self> {
        let mut v = vec![None];
        v.extend(take::<T>(8).into_iter().map(Some));
        v
    }

    fn eqv(&self, o: &Self) -> bool {
        match (self, o) {
            (None, None) => true,
            (Some(a), Some(b)) => a.eqv(b),
            _ => false,
        }
    }

    fn variants(&self) -> Vec<Self> {
        self.as_ref().map(|x| x.variants().into_iter().map(Some).collect()).unwrap_or_default()
    }

    fn decoded_ok(&self) -> bool { self.as_ref().is_none_or(Uni::decoded_ok) }
}

impl<T: Uni, E: Uni> Uni for Result<T, E> {
    fn vals() -> Vec<Self> {
        let mut v: Vec<Self> = take::<T>(5).into_iter().map(Ok).collect();
        v.extend(take::<E>(5).into_iter().map(Err));
        v
    }

    fn eqv(&self, o: &Self) -> bool {
        match (self, o) {
            (Ok(a), Ok(b)) => a.eqv(b),
            (Err(a), Err(b)) => a.eqv(b),
            _ => false,
        }
    }
}

thread_local! {
    /// nesting depth of `seqs` calls (long sequences only at the outermost
    /// container, otherwise nested containers multiply)
    static SEQ_DEPTH: std::cell::Cell<u32> = const { std::cell::Cell::new(0) };
}

/// thorough tier: larger samples of every element domain, every sequence of
/// length <= 3 over four elements, lengths 4 and 5
pub static RICH: std::sync::atomic::AtomicBool = std::sync::atomic::AtomicBool::new(false);

fn rich() -> bool { RICH.load(std::sync::atomic::Ordering::Relaxed) }

fn seqs<T: Uni>() -> Vec<Vec<T>> {
    let depth = SEQ_DEPTH.with(|d| {
        let v = d.get();
        d.set(v + 1);
        v
    });
    let e = take::<T>(if rich() { 6 } else { 4 });
    SEQ_DEPTH.with(|d| d.set(depth));
    let mut v: Vec<Vec<T>> = vec![vec![]];
    for a in &e {
        v.push(vec![a.clone()]);
    }
    let k = if rich() { 5 } else { 3 };
    for a in e.iter().take(k) {
        for b in e.iter().take(k) {
            v.push(vec![a.clone(), b.clone()]);
        }
    }
    if e.len() >= 3 {
        v.push(vec![e[0].clone(), e[1].clone(), e[2].clone()]);
        v.push(vec![e[2].clone(), e[1].clone(), e[0].clone()]);
        v.push(vec![e[0].clone(), e[0].clone(), e[0].clone()]);
    }
    if rich() && depth <= 1 {
        for a in e.iter().take(4) {
            for b in e.iter().take(4) {
                for c in e.iter().take(4) {
                    v.push(vec![a.clone(), b.clone(), c.clone()]);
                }
            }
        }
        let n = e.len();
        if n > 0 {
            v.push((0..4).map(|i| e[i % n].clone()).collect());
            v.push((0..5).map(|i| e[(i * 2) % n].clone()).collect());
        }
    }
    // the length prefix is a varint: 127 and 128 elements (outermost
    // container only)
    if depth == 0 && !e.is_empty() {
        let n = e.len();
        v.push((0..127).map(|i| e[i % n].clone()).collect());
        v.push((0..128).map(|i| e[(i + 1) % n].clone()).collect());
    }
    v
}

/// 128 pairwise different values of `T` (outermost container only), if the
/// domain is large enough: a collection whose length prefix needs two bytes
fn long_distinct<T: Uni>() -> Option<Vec<T>> {
    if SEQ_DEPTH.with(|d| d.get()) != 0 {
        return None;
    }
    SEQ_DEPTH.with(|d| d.set(1));
    let all = T::vals();
    SEQ_DEPTH.with(|d| d.set(0));
    let mut out: Vec<T> = Vec::new();
    for x in all {
        if !out.iter().any(|y| y.eqv(&x)) {
            out.push(x);
            if out.len() == 128 {
                return Some(out);
            }
        }
    }
    None
}

fn seq_eq<T: Uni>(a: &[T], b: &[T]) -> bool {
    a.len() == b.len() && a.iter().zip(b).all(|(x, y)| x.eqv(y))
}

impl<T: Uni> Uni for Vec<T> {
    fn vals() -> Vec<Self> { seqs::<T>() }

    fn eqv(&self, o: &Self) -> bool { seq_eq(self, o) }

    fn variants(&self) -> Vec<Self> {
        let mut c = Vec::with_capacity(self.len() + 17);
        c.extend(self.iter().cloned());
        let mut out = vec![c];
        out.extend(lift(self, |v| v));
        out
    }
}

/// every ring-buffer layout of a deque with this content: split between
/// push_front / push_back at every position, head at every offset of
/// buffers of several capacities, with and without `make_contiguous`
pub fn deque_layouts<T: Clone>(c: &[T]) -> Vec<VecDeque<T>> {
    let n = c.len();
    let mut out: Vec<VecDeque<T>> = Vec::new();
    out.push(c.iter().cloned().collect());
    // long content: the extreme and middle split points only
    let splits: Vec<usize> = if n <= 8 { (0..=n).collect() } else { vec![0, 1, n / 2, n - 1, n] };
    for k in splits {
        for cap in [0usize, n, n + 1, n + 3, 8] {
            let mut d: VecDeque<T> = VecDeque::with_capacity(cap);
            for x in &c[k..] {
                d.push_back(x.clone());
            }
            for x in c[..k].iter().rev() {
                d.push_front(x.clone());
            }
            let mut e = d.clone();
            e.make_contiguous();
            out.push(d);
            out.push(e);
        }
    }
    if n > 0 {
        for cap in [n, n + 1, n + 3, 8] {
            let shifts: Vec<usize> =
                if cap <= 9 { (1..=cap.max(1) + 1).collect() } else { vec![1, cap / 2, cap - 1, cap, cap + 1] };
            for shift in shifts {
                let mut d: VecDeque<T> = VecDeque::with_capacity(cap);
                // move the head around the ring
                for _ in 0..shift {
                    d.push_back(c[0].clone());
                    d.pop_front();
                }
                d.extend(c.iter().cloned());
                out.push(d.clone());
                // and rotate through the wrap point
                let mut r = d;
                r.rotate_left(1 % n.max(1));
                r.rotate_right(1 % n.max(1));
                out.push(r);
            }
        }
    }
    out
}

impl<T: Uni> Uni for VecDeque<T> {
    fn vals() -> Vec<Self> {
        seqs::<T>()
            .into_iter()
            .map(|v| {
                // a deque whose ring buffer is wrapped around
                let mut d: VecDeque<T> = VecDeque::with_capacity(4);
                for x in v.iter().rev() {
                    d.push_front(x.clone());
                }
                d
            })
            .collect()
    }

    fn eqv(&self, o: &Self) -> bool {
        seq_eq(&self.iter().cloned().collect::<Vec<_>>(), &o.iter().cloned().collect::<Vec<_>>())
    }

    fn variants(&self) -> Vec<Self> {
        let c: Vec<T> = self.iter().cloned().collect();
        let mut out = deque_layouts(&c);
        out.extend(lift(&c, |v| v.into_iter().collect()));
        out
    }
}

impl<T: Uni> Uni for LinkedList<T> {
    fn vals() -> Vec<Self> {
        seqs::<T>().into_iter().map(|v| v.into_iter().collect()).collect()
    }

    fn eqv(&self, o: &Self) -> bool {
        seq_eq(&self.iter().cloned().collect::<Vec<_>>(), &o.iter().cloned().collect::<Vec<_>>())
    }

    fn variants(&self) -> Vec<Self> {
        let c: Vec<T> = self.iter().cloned().collect();
        let mut out = Vec::new();
        for k in 0..=c.len() {
            let mut l = LinkedList::new();
            for x in &c[k..] {
                l.push_back(x.clone());
            }
            for x in c[..k].iter().rev() {
                l.push_front(x.clone());
            }
            out.push(l);
        }
        out.extend(lift(&c, |v| v.into_iter().collect()));
        out
    }
}

impl<T: Uni> Uni for [T; 2] {
    fn vals() -> Vec<Self> {
        let e = take::<T>(4);
        let mut v = Vec::new();
        for a in &e {
            for b in &e {
                v.push([a.clone(), b.clone()]);
            }
        }
        v
    }

    fn eqv(&self, o: &Self) -> bool { seq_eq(self, o) }
}

impl<T: Uni> Uni for [T; 0] {
    fn vals() -> Vec<Self> { vec![[]] }

    fn eqv(&self, _o: &Self) -> bool { true }
}

impl<A: Uni, B: Uni> Uni for (A, B) {
    fn vals() -> Vec<Self> {
        let (a, b) = (take::<A>(5), take::<B>(5));
        let mut v = Vec::new();
        for x in &a {
            for y in &b {
                v.push((x.clone(), y.clone()));
            }
        }
        v
    }

    fn eqv(&self, o: &Self) -> bool { self.0.eqv(&o.0) && self.1.eqv(&o.1) }

    fn variants(&self) -> Vec<Self> {
        let mut out: Vec<Self> =
            self.0.variants().into_iter().map(|a| (a, self.1.clone())).collect();
        out.extend(self.1.variants().into_iter().map(|b| (self.0.clone(), b)));
        out
    }

    fn decoded_ok(&self) -> bool { self.0.decoded_ok() && self.1.decoded_ok() }
}

impl<A: Uni, B: Uni, C: Uni> Uni for (A, B, C) {
    fn vals() -> Vec<Self> {
        let (a, b, c) = (take::<A>(3), take::<B>(3), take::<C>(3));
        let mut v = Vec::new();
        for x in &a {
            for y in &b {
                for z in &c {
                    v.push((x.clone(), y.clone(), z.clone()));
                }
            }
        }
        v
    }

    fn eqv(&self, o: &Self) -> bool {
        self.0.eqv(&o.0) && self.1.eqv(&o.1) && self.2.eqv(&o.2)
    }
}

impl<A: Uni, B: Uni, C: Uni, D: Uni> Uni for (A, B, C, D) {
    fn vals() -> Vec<Self> {
        let (a, b, c, d) = (take::<A>(2), take::<B>(2), take::<C>(2), take::<D>(3));
        let mut v = Vec::new();
        for x in &a {
            for y in &b {
                for z in &c {
                    for w in &d {
                        v.push((x.clone(), y.clone(), z.clone(), w.clone()));
                    }
                }
            }
        }
        v
    }

    fn eqv(&self, o: &Self) -> bool {
        self.0.eqv(&o.0) && self.1.eqv(&o.1) && self.2.eqv(&o.2) && self.3.eqv(&o.3)
    }
}

macro_rules! uni_wrap {
    ($w:ident, $mk:expr) => {
        impl<T: Uni> Uni for $w<T> {
            fn vals() -> Vec<Self> { take::<T>(12).into_iter().map($mk).collect() }

            fn eqv(&self, o: &Self) -> bool { (**self).eqv(&**o) }

            fn variants(&self) -> Vec<Self> {
                (**self).variants().into_iter().map($mk).collect()
            }

            fn decoded_ok(&self) -> bool { (**self).decoded_ok() }
        }
    };
}

uni_wrap!(Box, Box::new);
uni_wrap!(Rc, Rc::new);
uni_wrap!(Arc, Arc::new);

impl Uni for Cow<'static, str> {
    fn vals() -> Vec<Self> {
        let mut v: Vec<Self> =
            <String as Uni>::vals().into_iter().map(Cow::Owned).collect();
        v.push(Cow::Borrowed("ab"));
        v
    }

    fn eqv(&self, o: &Self) -> bool { self == o }
}

impl<T: Uni + Copy> Uni for std::cell::Cell<T> {
    fn vals() -> Vec<Self> { take::<T>(8).into_iter().map(std::cell::Cell::new).collect() }

    fn eqv(&self, o: &Self) -> bool { self.get().eqv(&o.get()) }
}

impl<T: Uni> Uni for std::cell::RefCell<T> {
    fn vals() -> Vec<Self> { take::<T>(8).into_iter().map(std::cell::RefCell::new).collect() }

    fn eqv(&self, o: &Self) -> bool { self.borrow().eqv(&o.borrow()) }
}

impl<T: Uni> Uni for std::num::Wrapping<T> {
    fn vals() -> Vec<Self> { take::<T>(8).into_iter().map(std::num::Wrapping).collect() }

    fn eqv(&self, o: &Self) -> bool { self.0.eqv(&o.0) }
}

impl<T: Uni> Uni for std::cmp::Reverse<T> {
    fn vals() -> Vec<Self> { take::<T>(8).into_iter().map(std::cmp::Reverse).collect() }

    fn eqv(&self, o: &Self) -> bool { self.0.eqv(&o.0) }
}

impl<T: Uni> Uni for std::ops::Range<T> {
    fn vals() -> Vec<Self> {
        let e = take::<T>(4);
        let mut v = Vec::new();
        for a in &e {
            for b in &e {
                v.push(a.clone()..b.clone());
            }
        }
        v
    }

    fn eqv(&self, o: &Self) -> bool { self.start.eqv(&o.start) && self.end.eqv(&o.end) }
}

impl<T: Uni> Uni for std::ops::RangeInclusive<T> {
    fn vals() -> Vec<Self> {
        let e = take::<T>(4);
        let mut v = Vec::new();
        for a in &e {
            for b in &e {
                v.push(a.clone()..=b.clone());
            }
        }
        v
    }

    fn eqv(&self, o: &Self) -> bool {
        self.start().eqv(o.start()) && self.end().eqv(o.end())
    }
}

impl<T: Uni> Uni for std::ops::Bound<T> {
    fn vals() -> Vec<Self> {
        let mut v = vec![std::ops::Bound::Unbounded];
        for a in take::<T>(4) {
            v.push(std::ops::Bound::Included(a.clone()));
            v.push(std::ops::Bound::Excluded(a));
        }
        v
    }

    fn eqv(&self, o: &Self) -> bool {
        use std::ops::Bound::*;
        match (self, o) {
            (Unbounded, Unbounded) => true,
            (Included(a), Included(b)) | (Excluded(a), Excluded(b)) => a.eqv(b),
            _ => false,
        }
    }
}

impl<T: Uni + Ord> Uni for BTreeSet<T> {
    fn vals() -> Vec<Self> {
        let long = long_distinct::<T>();
        let mut v: Vec<Self> = seqs::<T>().into_iter().map(|v| v.into_iter().collect()).collect();
        if let Some(l) = long {
            v.push(l[..127].iter().cloned().collect());
            v.push(l.into_iter().collect());
        }
        v
    }

    fn eqv(&self, o: &Self) -> bool {
        seq_eq(&self.iter().cloned().collect::<Vec<_>>(), &o.iter().cloned().collect::<Vec<_>>())
    }

    fn variants(&self) -> Vec<Self> {
        // reverse insertion order, and with an insert + remove in the history
        let mut a = BTreeSet::new();
        for x in self.iter().rev() {
            a.insert(x.clone());
        }
        let mut out = vec![a];
        if let Some(extra) = T::vals().into_iter().find(|x| !self.contains(x)) {
            let mut b = self.clone();
            b.insert(extra.clone());
            b.remove(&extra);
            out.push(b);
        }
        out
    }
}

impl<K: Uni + Ord, V: Uni> Uni for BTreeMap<K, V> {
    fn vals() -> Vec<Self> {
        let long = long_distinct::<K>();
        let vs = take::<V>(3);
        let mut out: Vec<Self> = seqs::<K>()
            .into_iter()
            .enumerate()
            .map(|(i, ks)| {
                ks.into_iter()
                    .enumerate()
                    .map(|(j, k)| (k, vs[(i + j) % vs.len()].clone()))
                    .collect()
            })
            .collect();
        if let Some(l) = long {
            out.push(l[..127].iter().cloned().enumerate().map(|(j, k)| (k, vs[j % vs.len()].clone())).collect());
            out.push(l.into_iter().enumerate().map(|(j, k)| (k, vs[j % vs.len()].clone())).collect());
        }
        out
    }

    fn eqv(&self, o: &Self) -> bool {
        self.len() == o.len()
            && self.iter().zip(o.iter()).all(|((a, b), (c, d))| a.eqv(c) && b.eqv(d))
    }

    fn variants(&self) -> Vec<Self> {
        let mut a = BTreeMap::new();
        for (k, v) in self.iter().rev() {
            a.insert(k.clone(), v.clone());
        }
        let mut out = vec![a];
        // overwritten entry in the history
        if let Some((k, v)) = self.iter().next() {
            let mut b = BTreeMap::new();
            if let Some(other) = V::vals().into_iter().find(|x| !x.eqv(v)) {
                b.insert(k.clone(), other);
            }
            for (k, v) in self.iter() {
                b.insert(k.clone(), v.clone());
            }
            out.push(b);
        }
        let items: Vec<(K, V)> = self.iter().map(|(k, v)| (k.clone(), v.clone())).collect();
        for (i, (_, v)) in items.iter().enumerate().take(4) {
            for w in v.variants() {
                let mut m = self.clone();
                m.insert(items[i].0.clone(), w);
                out.push(m);
            }
        }
        out
    }
}

impl<T: Uni + std::hash::Hash + Eq> Uni for HashSet<T> {
    fn vals() -> Vec<Self> {
        let long = long_distinct::<T>();
        let mut v: Vec<Self> = seqs::<T>().into_iter().map(|v| v.into_iter().collect()).collect();
        if let Some(l) = long {
            v.push(l[..127].iter().cloned().collect());
            v.push(l.into_iter().collect());
        }
        v
    }

    fn eqv(&self, o: &Self) -> bool { self == o }

    fn variants(&self) -> Vec<Self> {
        let items: Vec<T> = self.iter().cloned().collect();
        let mut out = Vec::new();
        // every rotation and the reverse of the current iteration order, in
        // tables of several capacities (each new table has a new random seed)
        for r in 0..items.len().clamp(1, 4) {
            for cap in [0usize, 64] {
                let mut h = HashSet::with_capacity(cap);
                for i in 0..items.len() {
                    h.insert(items[(i + r) % items.len()].clone());
                }
                out.push(h);
            }
        }
        let mut h = HashSet::new();
        for x in items.iter().rev() {
            h.insert(x.clone());
        }
        out.push(h);
        if let Some(extra) = T::vals().into_iter().find(|x| !self.contains(x)) {
            let mut b = self.clone();
            b.insert(extra.clone());
            b.remove(&extra);
            b.shrink_to_fit();
            out.push(b);
        }
        out
    }
}

impl<K: Uni + std::hash::Hash + Eq, V: Uni> Uni for HashMap<K, V> {
    fn vals() -> Vec<Self> {
        let long = long_distinct::<K>();
        let vs = take::<V>(3);
        let mut out: Vec<Self> = seqs::<K>()
            .into_iter()
            .enumerate()
            .map(|(i, ks)| {
                ks.into_iter()
                    .enumerate()
                    .map(|(j, k)| (k, vs[(i + j) % vs.len()].clone()))
                    .collect()
            })
            .collect();
        if let Some(l) = long {
            out.push(l[..127].iter().cloned().enumerate().map(|(j, k)| (k, vs[j % vs.len()].clone())).collect());
            out.push(l.into_iter().enumerate().map(|(j, k)| (k, vs[j % vs.len()].clone())).collect());
        }
        out
    }

    fn eqv(&self, o: &Self) -> bool {
        self.len() == o.len()
            && self.iter().all(|(k, v)| o.get(k).is_some_and(|w| v.eqv(w)))
    }

    fn variants(&self) -> Vec<Self> {
        let items: Vec<(K, V)> = self.iter().map(|(k, v)| (k.clone(), v.clone())).collect();
        let mut out = Vec::new();
        for r in 0..items.len().clamp(1, 4) {
            for cap in [0usize, 64] {
                let mut h = HashMap::with_capacity(cap);
                for i in 0..items.len() {
                    let (k, v) = items[(i + r) % items.len()].clone();
                    h.insert(k, v);
                }
                out.push(h);
            }
        }
        let mut h = HashMap::new();
        for (k, v) in items.iter().rev() {
            h.insert(k.clone(), v.clone());
        }
        out.push(h);
        for (i, (_, v)) in items.iter().enumerate().take(4) {
            for w in v.variants() {
                let mut m = self.clone();
                m.insert(items[i].0.clone(), w);
                out.push(m);
            }
        }
        out
    }
}

// ---------------------------------------------------------------------------
// derived types
// ---------------------------------------------------------------------------

#[derive(Debug, Clone, PartialEq, Eq, Hash, PartialOrd, Ord, Encode, Decode, StableHash, qbice::Identifiable)]
pub struct Unit;

#[derive(Debug, Clone, PartialEq, Eq, Hash, PartialOrd, Ord, Encode, Decode, StableHash, qbice::Identifiable)]
pub struct Pair<A, B> {
    pub a: A,
    pub b: B,
}

#[derive(Debug, Clone, PartialEq, Eq, Hash, PartialOrd, Ord, Encode, Decode, StableHash, qbice::Identifiable)]
pub struct Tup<A>(pub A, pub u8);

#[derive(Debug, Clone, PartialEq, Eq, Hash, PartialOrd, Ord, Encode, Decode, StableHash, qbice::Identifiable)]
pub enum Either<A, B> {
    L(A),
    R { x: B, y: u16 },
    N,
}

impl Uni for Unit {
    fn vals() -> Vec<Self> { vec![Unit] }

    fn eqv(&self, _: &Self) -> bool { true }
}

impl<A: Uni, B: Uni> Uni for Pair<A, B> {
    fn vals() -> Vec<Self> {
        <(A, B) as Uni>::vals().into_iter().map(|(a, b)| Pair { a, b }).collect()
    }

    fn eqv(&self, o: &Self) -> bool { self.a.eqv(&o.a) && self.b.eqv(&o.b) }
}

impl<A: Uni> Uni for Tup<A> {
    fn vals() -> Vec<Self> {
        let mut v = Vec::new();
        for a in take::<A>(6) {
            for b in [0u8, 127, 128, 255] {
                v.push(Tup(a.clone(), b));
            }
        }
        v
    }

    fn eqv(&self, o: &Self) -> bool { self.0.eqv(&o.0) && self.1 == o.1 }
}

impl<A: Uni, B: Uni> Uni for Either<A, B> {
    fn vals() -> Vec<Self> {
        let mut v = vec![Either::N];
        v.extend(take::<A>(6).into_iter().map(Either::L));
        for x in take::<B>(4) {
            for y in [0u16, 127, 128, 16383, 16384] {
                v.push(Either::R { x: x.clone(), y });
            }
        }
        v
    }

    fn eqv(&self, o: &Self) -> bool {
        match (self, o) {
            (Either::N, Either::N) => true,
            (Either::L(a), Either::L(b)) => a.eqv(b),
            (Either::R { x, y }, Either::R { x: x2, y: y2 }) => x.eqv(x2) && y == y2,
            _ => false,
        }
    }
}

// ---------------------------------------------------------------------------
// encode / decode / hash helpers
// ---------------------------------------------------------------------------

pub fn enc<T: Encode>(v: &T, p: &Plugin) -> Vec<u8> {
    let mut b = Vec::new();
    PostcardEncoder::new(&mut b).encode(v, p).expect("encode");
    b
}

/// decode one value, returning it and the number of bytes consumed
pub fn dec<T: Decode>(b: &[u8], p: &Plugin) -> Result<(T, usize), String> {
    let mut d = PostcardDecoder::new(std::io::Cursor::new(b));
    let v = d.decode::<T>(p).map_err(|e| e.to_string())?;
    Ok((v, d.into_inner().position() as usize))
}

/// A `StableHasher` that records the flattened byte stream it is fed and
/// mirrors it into the real seeded SipHash (for sub-hashes and `finish`).
#[derive(Clone)]
pub struct Recorder {
    pub bytes: Vec<u8>,
    sip: Sip128Hasher,
}

impl Recorder {
    pub fn new(seed: u64) -> Self {
        Self {
            bytes: Vec::new(),
            sip: SeededStableHasherBuilder::<Sip128Hasher>::new(seed).build_stable_hasher(),
        }
    }
}

impl StableHasher for Recorder {
    type Hash = u128;

    fn finish(&self) -> u128 { self.sip.finish() }

    fn write(&mut self, bytes: &[u8]) {
        self.bytes.extend_from_slice(bytes);
        StableHasher::write(&mut self.sip, bytes);
    }

    fn sub_hash(
        &self,
        f: &mut dyn FnMut(&mut dyn StableHasher<Hash = u128>),
    ) -> u128 {
        let mut sub = self.clone();
        f(&mut sub);
        sub.sip.finish()
    }
}

pub fn stream<T: StableHash + ?Sized>(v: &T) -> Vec<u8> {
    let mut r = Recorder::new(0);
    v.stable_hash(&mut r);
    r.bytes
}

pub fn hash128<T: StableHash + ?Sized>(v: &T, seed: u64) -> u128 {
    let mut h = SeededStableHasherBuilder::<Sip128Hasher>::new(seed).build_stable_hasher();
    v.stable_hash(&mut h);
    h.finish()
}

#[derive(Default, Debug)]
pub struct Ctx {
    pub types: u64,
    pub values: u64,
    pub pairs: u64,
    pub triples: u64,
    pub variants: u64,
    pub bad: Vec<String>,
    /// running digest of all seeded hashes (cross-process comparison)
    pub digest: u128,
}

impl Ctx {
    pub fn fail(&mut self, m: String) {
        if self.bad.len() < 40 {
            self.bad.push(m);
        }
    }
}

/// `VT_PROFILE=1`: report types whose check takes more than a second
struct Timer(std::time::Instant, String);

impl Timer {
    fn new(name: &str) -> Self { Self(std::time::Instant::now(), name.to_string()) }
}

impl Drop for Timer {
    fn drop(&mut self) {
        if std::env::var("VT_PROFILE").is_ok() && self.0.elapsed().as_millis() > 1000 {
            eprintln!("[vt] {} took {:.1}s", self.1, self.0.elapsed().as_secs_f64());
        }
    }
}

/// C12 for one type
pub fn check_ser<T: Uni + Encode + Decode>(ctx: &mut Ctx, name: &str) {
    let p = Plugin::default();
    let _t = Timer::new(name);
    let vals = T::vals();
    ctx.types += 1;
    let bad_before = ctx.bad.len();
    let encs: Vec<Vec<u8>> = vals.iter().map(|v| enc(v, &p)).collect();
    for (v, e) in vals.iter().zip(&encs) {
        ctx.values += 1;
        match dec::<T>(e, &p) {
            Ok((back, used)) => {
                if !back.eqv(v) {
                    ctx.fail(format!("{name}: decode(encode({v:?})) = {back:?}"));
                }
                if used != e.len() {
                    ctx.fail(format!(
                        "{name}: decoding {v:?} consumed {used} of {} bytes",
                        e.len()
                    ));
                }
                if !back.decoded_ok() {
                    ctx.fail(format!(
                        "{name}: decode(encode({v:?})) = {back:?}: a skipped field is not at its default"
                    ));
                }
            }
            Err(er) => ctx.fail(format!("{name}: decode(encode({v:?})) failed: {er}")),
        }
        // the same value constructed differently
        for w in v.variants() {
            ctx.values += 1;
            ctx.variants += 1;
            if !w.eqv(v) {
                ctx.fail(format!("MACHINERY {name}: variant {w:?} of {v:?} is not equal to it"));
                continue;
            }
            let ew = enc(&w, &p);
            match dec::<T>(&ew, &p) {
                Ok((back, used)) => {
                    if !back.eqv(v) || used != ew.len() {
                        ctx.fail(format!(
                            "{name}: {v:?} built another way decodes to {back:?} ({used} of {} bytes)",
                            ew.len()
                        ));
                    }
                }
                Err(er) => ctx.fail(format!("{name}: decode(encode({w:?})) failed: {er}")),
            }
        }
    }
    // prefix-freeness / injectivity over all pairs of distinct values
    // (sorted: a proper prefix or an equal encoding is adjacent-detectable)
    let mut idx: Vec<usize> = (0..vals.len()).collect();
    idx.sort_by(|a, b| encs[*a].cmp(&encs[*b]));
    for w in idx.windows(2) {
        ctx.pairs += 1;
        let (a, b) = (w[0], w[1]);
        if vals[a].eqv(&vals[b]) {
            continue;
        }
        if encs[b].starts_with(&encs[a]) {
            ctx.fail(format!(
                "{name}: encoding of {:?} is a prefix of (or equal to) the \
                 encoding of {:?}",
                vals[a], vals[b]
            ));
        }
    }
    // back-to-back values are read back in sequence (sliding triples); not
    // attempted for a type whose single values already fail (a decoder that
    // is out of step reads garbage lengths and aborts on allocation)
    if ctx.bad.len() > bad_before {
        return;
    }
    let n = vals.len();
    let step = (n / 200).max(1);
    let mut i = 0;
    while i + 2 < n || (n >= 1 && i == 0) {
        let tri = [i % n, (i + 1) % n, (i + 2) % n];
        let mut buf = Vec::new();
        for t in tri {
            buf.extend(&encs[t]);
        }
        let mut off = 0;
        for t in tri {
            match dec::<T>(&buf[off..], &p) {
                Ok((back, used)) => {
                    if !back.eqv(&vals[t]) {
                        ctx.fail(format!(
                            "{name}: in a concatenation {:?} was read back as {back:?}",
                            vals[t]
                        ));
                    }
                    off += used;
                }
                Err(er) => {
                    ctx.fail(format!("{name}: sequential decode failed: {er}"));
                    break;
                }
            }
        }
        ctx.triples += 1;
        i += step;
        if n < 3 {
            break;
        }
    }
}

/// C13 for one type
pub fn check_hash<T: Uni + StableHash + Encode + Decode>(ctx: &mut Ctx, name: &str) {
    let p = Plugin::default();
    let _t = Timer::new(name);
    let vals = T::vals();
    ctx.types += 1;
    let streams: Vec<Vec<u8>> = vals.iter().map(|v| stream(v)).collect();
    // discriminating: unequal values feed different streams
    let mut idx: Vec<usize> = (0..vals.len()).collect();
    idx.sort_by(|a, b| streams[*a].cmp(&streams[*b]));
    for w in idx.windows(2) {
        ctx.pairs += 1;
        let (a, b) = (w[0], w[1]);
        if streams[a] == streams[b] && !vals[a].eqv(&vals[b]) && !nan_pair(&vals[a], &vals[b]) {
            ctx.fail(format!(
                "{name}: unequal values {:?} and {:?} feed the same byte \
                 stream to the hasher",
                vals[a], vals[b]
            ));
        }
    }
    for v in &vals {
        ctx.values += 1;
        let h = hash128(v, 7);
        ctx.digest = ctx.digest.wrapping_add(h);
        // deterministic within the process, history free w.r.t. clone
        if hash128(&v.clone(), 7) != h {
            ctx.fail(format!("{name}: hash of a clone of {v:?} differs"));
        }
        // owned vs shared storage
        if hash128(&Box::new(v.clone()), 7) != h
            || hash128(&Arc::new(v.clone()), 7) != h
            || hash128(&Rc::new(v.clone()), 7) != h
            || hash128(&v, 7) != h
        {
            ctx.fail(format!("{name}: hash of {v:?} depends on the storage"));
        }
        // after a serialization round trip
        // (a value that does not survive the round trip is C12's concern)
        if let Ok((back, _)) = dec::<T>(&enc(v, &p), &p) {
            if back.eqv(v) && hash128(&back, 7) != h {
                ctx.fail(format!(
                    "{name}: hash of {v:?} changes over a serialization round trip"
                ));
            }
        }
        // construction history / internal layout
        for w in v.variants() {
            ctx.values += 1;
            ctx.variants += 1;
            if !w.eqv(v) {
                ctx.fail(format!("MACHINERY {name}: variant {w:?} of {v:?} is not equal to it"));
                continue;
            }
            if hash128(&w, 7) != h {
                ctx.fail(format!(
                    "{name}: equal values hash differently depending on how they were built: {v:?}"
                ));
            }
        }
    }
}

fn nan_pair<T: Debug>(a: &T, b: &T) -> bool {
    // NaN payloads are normalised by design
    let (x, y) = (format!("{a:?}"), format!("{b:?}"));
    x.contains("NaN") && y.contains("NaN")
}

/// construction histories of unordered collections (C13)
pub fn check_histories(ctx: &mut Ctx) {
    use std::hash::BuildHasherDefault;
    let elems: Vec<u16> = vec![0, 1, 127, 128, 300];
    // every subset of size <= 4, every insertion order
    fn perms(v: &[u16]) -> Vec<Vec<u16>> {
        if v.len() <= 1 {
            return vec![v.to_vec()];
        }
        let mut out = Vec::new();
        for i in 0..v.len() {
            let mut rest = v.to_vec();
            let x = rest.remove(i);
            for mut p in perms(&rest) {
                p.insert(0, x);
                out.push(p);
            }
        }
        out
    }
    for mask in 0u32..(1 << elems.len()) {
        let sub: Vec<u16> = elems
            .iter()
            .enumerate()
            .filter(|(i, _)| mask >> i & 1 == 1)
            .map(|(_, e)| *e)
            .collect();
        if sub.len() > 4 {
            continue;
        }
        let reference: HashSet<u16> = sub.iter().copied().collect();
        let href = hash128(&reference, 3);
        let mref: HashMap<u16, String> =
            sub.iter().map(|k| (*k, format!("v{k}"))).collect();
        let hmref = hash128(&mref, 3);
        for order in perms(&sub) {
            ctx.values += 1;
            // default (randomly seeded) hasher, fresh instance
            let a: HashSet<u16> = order.iter().copied().collect();
            // reserved capacity
            let mut b: HashSet<u16> = HashSet::with_capacity(1000);
            b.extend(order.iter().copied());
            // a different, fixed hasher
            let c: HashSet<u16, BuildHasherDefault<fxhash::FxHasher>> =
                order.iter().copied().collect();
            // with removals in the history
            let mut d: HashSet<u16> = order.iter().copied().collect();
            d.insert(9999);
            d.remove(&9999);
            d.shrink_to_fit();
            if hash128(&a, 3) != href
                || hash128(&b, 3) != href
                || hash128(&c, 3) != href
                || hash128(&d, 3) != href
            {
                ctx.fail(format!("HashSet {order:?}: hash depends on the construction history"));
            }
            let m: HashMap<u16, String> =
                order.iter().map(|k| (*k, format!("v{k}"))).collect();
            let mut m2: HashMap<u16, String, BuildHasherDefault<fxhash::FxHasher>> =
                HashMap::with_capacity_and_hasher(64, Default::default());
            for k in order.iter().rev() {
                m2.insert(*k, format!("v{k}"));
            }
            if hash128(&m, 3) != hmref || hash128(&m2, 3) != hmref {
                ctx.fail(format!("HashMap {order:?}: hash depends on the construction history"));
            }
            // ordered collections built in any order
            let bt: BTreeSet<u16> = order.iter().copied().collect();
            let bt2: BTreeSet<u16> = sub.iter().copied().collect();
            if hash128(&bt, 3) != hash128(&bt2, 3) {
                ctx.fail(format!("BTreeSet {order:?}: hash depends on insertion order"));
            }
            // a binary heap is a multiset
            let bh: std::collections::BinaryHeap<u16> = order.iter().copied().collect();
            let bh2: std::collections::BinaryHeap<u16> = sub.iter().copied().collect();
            if hash128(&bh, 3) != hash128(&bh2, 3) {
                ctx.fail(format!("BinaryHeap {order:?}: hash depends on insertion order"));
            }
        }
    }
    // String vs str vs Cow, Vec vs slice vs VecDeque (wrapped) of equal content
    for s in <String as Uni>::vals() {
        let h = hash128(&s, 3);
        let cow: Cow<'_, String> = Cow::Borrowed(&s);
        if hash128(s.as_str(), 3) != h
            || hash128(&cow, 3) != h
            || hash128(&Cow::<String>::Owned(s.clone()), 3) != h
        {
            ctx.fail(format!("{s:?}: String/str/Cow hash differently"));
        }
    }
    for v in <Vec<u16> as Uni>::vals() {
        let h = hash128(&v, 3);
        let mut with_cap = Vec::with_capacity(100);
        with_cap.extend(v.iter().copied());
        if hash128(v.as_slice(), 3) != h || hash128(&with_cap, 3) != h {
            ctx.fail(format!("{v:?}: Vec/slice/capacity hash differently"));
        }
    }
}

// ---------------------------------------------------------------------------
// the rest of the provided impls: unsized payloads behind smart pointers,
// every NonZero width, open ranges, PhantomData, concurrent collections,
// wide tuples, arrays of other lengths, atomics
// ---------------------------------------------------------------------------

macro_rules! uni_slice_ptr {
    ($p:ident) => {
        impl<T: Uni> Uni for $p<[T]> {
            fn vals() -> Vec<Self> { seqs::<T>().into_iter().map(|v| v.into()).collect() }

            fn eqv(&self, o: &Self) -> bool { seq_eq(self, o) }
        }
        impl Uni for $p<str> {
            fn vals() -> Vec<Self> {
                <String as Uni>::vals().into_iter().map(|s| s.as_str().into()).collect()
            }

            fn eqv(&self, o: &Self) -> bool { **self == **o }
        }
        impl Uni for $p<std::path::Path> {
            fn vals() -> Vec<Self> {
                <std::path::PathBuf as Uni>::vals().into_iter().map(|s| s.as_path().into()).collect()
            }

            fn eqv(&self, o: &Self) -> bool { **self == **o }
        }
    };
}
uni_slice_ptr!(Box);
uni_slice_ptr!(Rc);
uni_slice_ptr!(Arc);

impl<T: Uni> Uni for Cow<'static, [T]> {
    fn vals() -> Vec<Self> {
        let mut v: Vec<Self> = seqs::<T>().into_iter().map(Cow::Owned).collect();
        // the same values borrowed
        for s in seqs::<T>() {
            v.push(Cow::Borrowed(Box::leak(s.into_boxed_slice())));
        }
        v
    }

    fn eqv(&self, o: &Self) -> bool { seq_eq(self, o) }
}

impl Uni for Cow<'static, std::path::Path> {
    fn vals() -> Vec<Self> {
        let mut v: Vec<Self> =
            <std::path::PathBuf as Uni>::vals().into_iter().map(Cow::Owned).collect();
        v.push(Cow::Borrowed(std::path::Path::new("a/b")));
        v
    }

    fn eqv(&self, o: &Self) -> bool { **self == **o }
}

impl<T: 'static> Uni for std::marker::PhantomData<T> {
    fn vals() -> Vec<Self> { vec![std::marker::PhantomData] }

    fn eqv(&self, _: &Self) -> bool { true }
}

macro_rules! nonzero_uni {
    ($($nz:ident : $t:ty),*) => {$(
        impl Uni for std::num::$nz {
            fn vals() -> Vec<Self> {
                <$t as Uni>::vals().into_iter().filter_map(std::num::$nz::new).collect()
            }

            fn eqv(&self, o: &Self) -> bool { self == o }
        }
    )*};
}
nonzero_uni!(NonZeroU16: u16, NonZeroU32: u32, NonZeroU128: u128, NonZeroUsize: usize,
             NonZeroI8: i8, NonZeroI16: i16, NonZeroI64: i64, NonZeroI128: i128, NonZeroIsize: isize);

impl<T: Uni> Uni for std::ops::RangeFrom<T> {
    fn vals() -> Vec<Self> { take::<T>(8).into_iter().map(|s| s..).collect() }

    fn eqv(&self, o: &Self) -> bool { self.start.eqv(&o.start) }
}

impl<T: Uni> Uni for std::ops::RangeTo<T> {
    fn vals() -> Vec<Self> { take::<T>(8).into_iter().map(|e| ..e).collect() }

    fn eqv(&self, o: &Self) -> bool { self.end.eqv(&o.end) }
}

impl<T: Uni> Uni for std::ops::RangeToInclusive<T> {
    fn vals() -> Vec<Self> { take::<T>(8).into_iter().map(|e| ..=e).collect() }

    fn eqv(&self, o: &Self) -> bool { self.end.eqv(&o.end) }
}

impl Uni for std::ops::RangeFull {
    fn vals() -> Vec<Self> { vec![..] }

    fn eqv(&self, _: &Self) -> bool { true }
}

impl<K: Uni + std::hash::Hash + Eq, V: Uni> Uni for dashmap::DashMap<K, V> {
    fn vals() -> Vec<Self> {
        <HashMap<K, V> as Uni>::vals().into_iter().map(|m| m.into_iter().collect()).collect()
    }

    fn eqv(&self, o: &Self) -> bool {
        self.len() == o.len()
            && self.iter().all(|e| o.get(e.key()).is_some_and(|w| e.value().eqv(&*w)))
    }

    fn variants(&self) -> Vec<Self> {
        // other shard counts, reverse insertion
        let items: Vec<(K, V)> = self.iter().map(|e| (e.key().clone(), e.value().clone())).collect();
        let mut out = Vec::new();
        for shards in [2usize, 4, 64] {
            let m = dashmap::DashMap::with_shard_amount(shards);
            for (k, v) in items.iter().rev() {
                m.insert(k.clone(), v.clone());
            }
            out.push(m);
        }
        out
    }
}

impl<K: Uni + std::hash::Hash + Eq> Uni for dashmap::DashSet<K> {
    fn vals() -> Vec<Self> {
        <HashSet<K> as Uni>::vals().into_iter().map(|m| m.into_iter().collect()).collect()
    }

    fn eqv(&self, o: &Self) -> bool { self.len() == o.len() && self.iter().all(|e| o.contains(e.key())) }

    fn variants(&self) -> Vec<Self> {
        let items: Vec<K> = self.iter().map(|e| e.key().clone()).collect();
        let mut out = Vec::new();
        for cap in [0usize, 1, 64] {
            let m = dashmap::DashSet::with_capacity(cap);
            for k in items.iter().rev() {
                m.insert(k.clone());
            }
            out.push(m);
        }
        out
    }
}

impl<T: Uni + Ord> Uni for std::collections::BinaryHeap<T> {
    fn vals() -> Vec<Self> { seqs::<T>().into_iter().map(|v| v.into_iter().collect()).collect() }

    fn eqv(&self, o: &Self) -> bool {
        seq_eq(&self.clone().into_sorted_vec(), &o.clone().into_sorted_vec())
    }

    fn variants(&self) -> Vec<Self> {
        let items = self.clone().into_sorted_vec();
        let mut rev = std::collections::BinaryHeap::new();
        for x in items.iter().rev() {
            rev.push(x.clone());
        }
        let mut fwd = std::collections::BinaryHeap::with_capacity(50);
        for x in items.iter() {
            fwd.push(x.clone());
        }
        vec![rev, fwd]
    }
}

macro_rules! uni_array {
    ($($n:expr),*) => {$(
        impl<T: Uni> Uni for [T; $n] {
            fn vals() -> Vec<Self> {
                // every position varied on its own over the element domain, plus all-last
                let e = take::<T>(4);
                let base: [T; $n] = std::array::from_fn(|_| e[0].clone());
                let mut v = vec![base.clone()];
                for i in 0..$n {
                    for x in e.iter().skip(1) {
                        let mut a = base.clone();
                        a[i] = x.clone();
                        v.push(a);
                    }
                }
                v.push(std::array::from_fn(|_| e[e.len() - 1].clone()));
                v
            }

            fn eqv(&self, o: &Self) -> bool { seq_eq(self, o) }
        }
    )*};
}
uni_array!(1, 3, 4, 32, 33);

macro_rules! uni_wide_tuple {
    ($($n:tt : $t:ident),+) => {
        impl<$($t: Uni),+> Uni for ($($t,)+) {
            fn vals() -> Vec<Self> {
                // every position varied on its own (a swapped or dropped
                // position changes the decoded value), plus all-last
                let base: Self = ($(take::<$t>(3)[0].clone(),)+);
                let mut v = vec![base.clone()];
                $(
                    for x in take::<$t>(3).into_iter().skip(1) {
                        let mut a = base.clone();
                        a.$n = x;
                        v.push(a);
                    }
                )+
                v.push(($({ let t = take::<$t>(3); t[t.len() - 1].clone() },)+));
                v
            }

            fn eqv(&self, o: &Self) -> bool { true $(&& self.$n.eqv(&o.$n))+ }
        }
    };
}
uni_wide_tuple!(0: A, 1: B, 2: C, 3: D, 4: E);
uni_wide_tuple!(0: A, 1: B, 2: C, 3: D, 4: E, 5: F);
uni_wide_tuple!(0: A, 1: B, 2: C, 3: D, 4: E, 5: F, 6: G);
uni_wide_tuple!(0: A, 1: B, 2: C, 3: D, 4: E, 5: F, 6: G, 7: H);
uni_wide_tuple!(0: A, 1: B, 2: C, 3: D, 4: E, 5: F, 6: G, 7: H, 8: I);
uni_wide_tuple!(0: A, 1: B, 2: C, 3: D, 4: E, 5: F, 6: G, 7: H, 8: I, 9: J);
uni_wide_tuple!(0: A, 1: B, 2: C, 3: D, 4: E, 5: F, 6: G, 7: H, 8: I, 9: J, 10: K);
uni_wide_tuple!(0: A, 1: B, 2: C, 3: D, 4: E, 5: F, 6: G, 7: H, 8: I, 9: J, 10: K, 11: L);

/// C13 for a type without Encode/Decode (or whose round trip is not the point)
pub fn check_hash_only<T: Uni + StableHash>(ctx: &mut Ctx, name: &str) {
    let vals = T::vals();
    ctx.types += 1;
    let streams: Vec<Vec<u8>> = vals.iter().map(|v| stream(v)).collect();
    let mut idx: Vec<usize> = (0..vals.len()).collect();
    idx.sort_by(|a, b| streams[*a].cmp(&streams[*b]));
    for w in idx.windows(2) {
        ctx.pairs += 1;
        let (a, b) = (w[0], w[1]);
        if streams[a] == streams[b] && !vals[a].eqv(&vals[b]) && !nan_pair(&vals[a], &vals[b]) {
            ctx.fail(format!(
                "{name}: unequal values {:?} and {:?} feed the same byte stream to the hasher",
                vals[a], vals[b]
            ));
        }
    }
    for v in &vals {
        ctx.values += 1;
        let h = hash128(v, 7);
        ctx.digest = ctx.digest.wrapping_add(h);
        if hash128(&v.clone(), 7) != h || hash128(&v, 7) != h || hash128(&&v, 7) != h {
            ctx.fail(format!("{name}: hash of {v:?} depends on the storage"));
        }
        for w in v.variants() {
            ctx.values += 1;
            ctx.variants += 1;
            if !w.eqv(v) {
                ctx.fail(format!("MACHINERY {name}: variant {w:?} of {v:?} is not equal to it"));
                continue;
            }
            if hash128(&w, 7) != h {
                ctx.fail(format!(
                    "{name}: equal values hash differently depending on how they were built: {v:?}"
                ));
            }
        }
    }
}

/// C12 / C13 for the atomic integer types (not `Clone`, so outside `Uni`):
/// an atomic encodes / hashes like the value it holds.
pub fn check_atomics(ctx: &mut Ctx, ser: bool) {
    use std::sync::atomic::*;
    let p = Plugin::default();
    macro_rules! one {
        ($at:ident, $t:ty) => {{
            ctx.types += 1;
            for x in <$t as Uni>::vals() {
                ctx.values += 1;
                let a = $at::new(x);
                if ser {
                    let e = enc(&a, &p);
                    if e != enc(&x, &p) {
                        ctx.fail(format!("{}: {x:?} is not encoded like the plain value", stringify!($at)));
                    }
                    match dec::<$at>(&e, &p) {
                        Ok((back, used)) => {
                            if back.load(Ordering::Relaxed) != x || used != e.len() {
                                ctx.fail(format!(
                                    "{}: decode(encode({x:?})) = {back:?} ({used} of {} bytes)",
                                    stringify!($at),
                                    e.len()
                                ));
                            }
                        }
                        Err(er) => ctx.fail(format!("{}: decode(encode({x:?})) failed: {er}", stringify!($at))),
                    }
                } else if hash128(&a, 7) != hash128(&x, 7) {
                    ctx.fail(format!("{}: {x:?} does not hash like the plain value", stringify!($at)));
                }
            }
        }};
    }
    one!(AtomicBool, bool);
    one!(AtomicI8, i8);
    one!(AtomicI16, i16);
    one!(AtomicI32, i32);
    one!(AtomicI64, i64);
    one!(AtomicIsize, isize);
    one!(AtomicU8, u8);
    one!(AtomicU16, u16);
    one!(AtomicU32, u32);
    one!(AtomicU64, u64);
    one!(AtomicUsize, usize);
}

/// C13 for the string-like std types that only have a StableHash impl
pub fn check_os_strings(ctx: &mut Ctx) {
    use std::ffi::{CString, OsString};
    let strs = <String as Uni>::vals();
    let mut seen: Vec<(Vec<u8>, String)> = Vec::new();
    ctx.types += 4;
    for s in &strs {
        ctx.values += 1;
        let os = OsString::from(s.clone());
        let h = hash128(&os, 7);
        ctx.digest = ctx.digest.wrapping_add(h);
        if hash128(os.as_os_str(), 7) != h {
            ctx.fail(format!("OsString/OsStr {s:?} hash differently"));
        }
        let p = std::path::PathBuf::from(s.clone());
        if hash128(&p, 7) != hash128(p.as_path(), 7) {
            ctx.fail(format!("PathBuf/Path {s:?} hash differently"));
        }
        seen.push((stream(&os), s.clone()));
        if !s.contains('\0') {
            let c = CString::new(s.clone()).unwrap();
            if hash128(&c, 7) != hash128(c.as_c_str(), 7) {
                ctx.fail(format!("CString/CStr {s:?} hash differently"));
            }
            let mut with_cap = String::with_capacity(300);
            with_cap.push_str(s);
            if hash128(&CString::new(with_cap).unwrap(), 7) != hash128(&c, 7) {
                ctx.fail(format!("CString {s:?}: hash depends on the capacity"));
            }
        }
    }
    seen.sort();
    for w in seen.windows(2) {
        ctx.pairs += 1;
        if w[0].0 == w[1].0 && w[0].1 != w[1].1 {
            ctx.fail(format!("OsString: {:?} and {:?} feed the same stream", w[0].1, w[1].1));
        }
    }
    // std::mem::Discriminant: distinct per variant, equal for equal variants
    let e: Vec<crate::vshape::Either<u8, u8>> =
        vec![Either::L(1), Either::L(2), Either::R { x: 1, y: 2 }, Either::N];
    let d: Vec<u128> = e.iter().map(|x| hash128(&std::mem::discriminant(x), 7)).collect();
    ctx.values += 4;
    for h in &d {
        ctx.digest = ctx.digest.wrapping_add(*h);
    }
    if d[0] != d[1] || d[0] == d[2] || d[0] == d[3] || d[2] == d[3] {
        ctx.fail("Discriminant<T>: hash does not identify the variant".into());
    }
}
