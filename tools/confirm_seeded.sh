#!/bin/bash
# usage: confirm_seeded.sh <ID> <agent_out_dir> <demo_test_name>
# Confirms a seeded change in a scratch worktree: suite passes with it, demo fails with it and passes without.
set -u
ID=$1; OUT=$2; DEMO=$3; PKG=${4:-qbice_integration_test}; EXTRA=${5:-}
WT=/tmp/confirm_wt
export CARGO_TARGET_DIR=/tmp/confirm_target CARGO_NET_OFFLINE=true
if [ ! -d $WT ]; then git -C /repo worktree add -q --detach $WT HEAD; fi
cd $WT && git checkout -q --detach $(git -C /repo rev-parse HEAD) && git checkout -q -- . && git clean -qfd
LOG=/tmp/confirm_$ID.log; : > $LOG
git apply $OUT/patch.diff || { echo "patch does not apply" >> $LOG; exit 1; }
echo "== suite with change" >> $LOG
timeout 2400 cargo test --workspace --no-fail-fast --offline > /tmp/confirm_${ID}_suite.log 2>&1
grep -E "^test .* FAILED|^test result: FAILED" /tmp/confirm_${ID}_suite.log >> $LOG
echo "suite_failed_tests: $(grep -E '^test .* FAILED' /tmp/confirm_${ID}_suite.log | grep -v 'asymmetric_diamond_projection_pattern\|^test result' | wc -l)" >> $LOG
git apply $OUT/demo/demo.diff || { echo "demo does not apply" >> $LOG; exit 1; }
echo "== demo with change" >> $LOG
timeout 1200 cargo test --offline -p $PKG $EXTRA --test $DEMO > /tmp/confirm_${ID}_demo_with.log 2>&1; echo "demo_with_exit: $?" >> $LOG
git apply -R $OUT/patch.diff
echo "== demo without change" >> $LOG
timeout 1200 cargo test --offline -p $PKG $EXTRA --test $DEMO > /tmp/confirm_${ID}_demo_without.log 2>&1; echo "demo_without_exit: $?" >> $LOG
git checkout -q -- . && git clean -qfd
echo done >> $LOG
