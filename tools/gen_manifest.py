#!/usr/bin/env python3
"""Generates /verif/MANIFEST.json from the table below (single source of truth)."""
import json, os, sys

HERE = os.path.dirname(os.path.dirname(os.path.abspath(__file__)))

BASELINE_OFF = ("cd /repo && cargo test --workspace --no-fail-fast --offline")

CHECKS = {
    "C04": dict(
        category="exploration",
        technique="stateless model checking: deviation-bounded exhaustive DFS over task schedules of the real engine (shuttle runtime, own scheduler)",
        text=("Every schedule with <= d deviations (d=1..2 quick, 2..3 thorough) from the default schedule of a closed harness "
              "(1 writer running 1-2 sessions that each write A and B, commit or drop; 1-2 readers looping tracked/query/drop; roots plain, "
              "behind a firewall, behind firewall+projection) is executed on the real engine; each reader's (A,B,root) must be exactly one "
              "committed snapshot within its hand-out window and the final state must be the last snapshot; variants with a reader's recomputation in "
              "flight while the next session is opened, and over DbBacked<MemKv> with a clean shutdown and a new engine on the same store that must "
              "show the last snapshot. Exhaustive within the bound, "
              "so it reaches the windows between epoch bump, phase lock and epoch sampling that no test enters."),
        design_ref="DESIGN.md 4/C04",
        note=("Interleavings at lock/await/storage-access/atomic granularity of <=3 tasks with <=d deviations; real parallelism, weak memory, "
              "tokio::sync/scc/dashmap internals (atomic steps) and the shim implementations in crates/verif_rt are trusted."),
    ),
}

CHECKS.update({
    "C01": dict(
        category="model_checking",
        technique="explicit-state model checking of the implementation: BFS over operation histories with state de-duplication, every transition executed on the real engine and compared with a from-scratch reference evaluator",
        text=("For every program of a curated set (one shape per mechanism: cut-off chains, conditional dependencies, firewalls, projections, "
              "firewall chains/switches, unordered/concurrent reads, external inputs, partial executors that panic outside their domain "
              "and are demanded only behind a guard) and of a systematic universe (all 2-3 node programs over "
              "the body/style alphabet), a breadth-first search visits every history of sessions (set/update/refresh, no-change writes, one input assigned twice, commit "
              "or drop), queries and world changes up to depth 3 (quick) / 4-5 (thorough), de-duplicated on the engine's complete persisted "
              "state. Every user value, every value handed to an executor and every SetInputResult is compared with the from-scratch model."),
        design_ref="DESIGN.md 4/C01",
        note=("Sequential histories under the default schedule; values in {0,1,2}; <=2 inputs + <=1 external input; in-memory storage engine. "
              "State abstraction (timestamps compared only for equality with the current epoch) is argued in DESIGN.md. Known findings F10a-c "
              "(stale values behind firewalls) and F19 (an undemanded firewall with a partial executor is repaired eagerly and its panic reaches the user) "
              "are reported as KNOWN-FINDING, identified by history-shape triggers."),
    ),
    "C03": dict(
        category="model_checking",
        technique="explicit-state model checking of the implementation (same search as C01) with a justification judge applied to every executor activation",
        text=("Same search as C01 (own run). Every executor activation in every visited transition is judged: justified iff the key was never "
              "computed or a dependency of its previous run has a different from-scratch value; at most one activation per key between two "
              "sessions; external inputs only on first demand or in refresh (and refresh re-runs exactly the executed ones); a repeated query "
              "and a session without changes execute nothing."),
        design_ref="DESIGN.md 4/C03",
        note="As C01; cancellation-free histories. Over-execution never changes a value, so only this judge can see it.",
    ),
    "C02": dict(
        category="exploration",
        technique="stateless model checking: deviation-bounded exhaustive DFS over task schedules of the real engine (shuttle runtime, own scheduler)",
        text=("Every schedule with <= d deviations (d=2 quick, 2-3 thorough) of 2-3 concurrent reader tasks on the real engine for fan-in "
              "programs across the 32-element backward-edge tier (32/33/34 callers), diamonds with concurrent and unordered reads, firewall + "
              "projections, projection diamonds and firewall chains, fresh and after an edit (repair, transitive-firewall repair and backward "
              "projection run concurrently); fan-in of 1024-1030 recorded callers + 2-3 concurrent new ones on the engine over the real caches "
              "(key-to-set map at / above its 1024-element threshold: entry rebuilt from the store, spilled scan, resident too-large entry, "
              "with physical commits held so that the new backward edges exist only in the staging area while dirtiness propagates); then an edit and a sequential re-query of every node. Oracles per execution: values == from "
              "scratch, no overlapping activations of a key, <= 1 activation per key and epoch, no deadlock/livelock, post-edit values == from "
              "scratch (lost-invalidation detector)."),
        design_ref="DESIGN.md 4/C02",
        note=("<=3 tasks, <=d deviations, scheduling points at lock acquisitions, awaits, yields, storage set reads and selected atomics; true "
              "parallelism on many workers, weak memory and the internals of scc/dashmap/tokio::sync (atomic steps) are outside the bound."),
    ),
})

CHECKS.update({
    "C07": dict(
        category="model_checking",
        technique="explicit-state model checking of the implementation: BFS over histories with restart/drain operations on the engine over DbBacked<MemKv>, from-scratch reference model, justification judge and restart-free twin (differential)",
        text=("The C01 history search runs on an engine over the real caches and write-behind pipeline with an in-memory KvDatabase (real Postcard "
              "encoding); RESTART (clean shutdown, new engine + interner + caches on the same store) and DRAIN are operations of the alphabet and "
              "are inserted at every position up to depth 4 (quick) / 5 (thorough), for cache capacities 1/2/64 and three store grouping policies. "
              "After a restart no input is set again: every value and dependency read must equal the from-scratch value, every executor "
              "activation must be justified (up-to-date results are served without running anything), and the same history without restarts must "
              "give the same values and the same activation log. Histories with a restart among their last 3 operations are never merged with "
              "restart-free ones."),
        design_ref="DESIGN.md 4/C07",
        note="Sequential histories, deterministic pipeline scheduling; MemKv stands for the backend (its contract is C11); known findings F10a-d shared with C01/C03.",
    ),
    "C08": dict(
        category="fault_enumeration",
        technique="exhaustive crash-point enumeration: for every history of the bounded search, an engine is opened on every prefix of the physical commit log",
        text=("For every history visited by the C07 search to depth 3 (quick) / 4 (thorough) and every configuration, the ordered physical commit "
              "log of the store is cut at EVERY boundary (including the empty store and the store after the very first write); an engine opened on "
              "each prefix must start, show the inputs of exactly one committed session (all of them), answer every query with the from-scratch "
              "value for those inputs - asked bottom-up and, on a second engine on the same prefix, top-down - and handle a further edit + query correctly."),
        design_ref="DESIGN.md 4/C08",
        note="Crash = prefix of physical commits (atomicity of one commit is the backend's, C11); kill -9 at arbitrary instants of a real backend is a sampling experiment outside this family and not claimed.",
    ),
    "C09": dict(
        category="exploration",
        technique="exhaustive enumeration of operation sequences with explicit pipeline steps on the real cache maps + deviation-bounded schedule exploration of reader/writer/pipeline threads",
        text=("H: every operation sequence to depth 5 (quick) / 6 (thorough) over writes into a fresh batch or two open batches, submits in any "
              "order, explicit pipeline steps (serializer / committer / notifier runs until it blocks), 'submit and run the whole pipeline', three "
              "further set elements through an older open batch, a burst of 40 foreign keys (maintenance + evictions) and reads, for the single, dynamic (two value types under one key) and key-to-set maps (also a set beyond the 1024 "
              "threshold), cache capacities 1/2/4 and three grouping policies, on the real DbBacked maps and write-behind threads; every read, a "
              "final read, and a read through fresh maps after shutdown are compared with plain reference maps. S: reader thread vs writer thread "
              "vs pipeline threads with <= 2 (3) deviations, reads must be at least as new as the last completed write."),
        design_ref="DESIGN.md 4/C09",
        note=("Writes to one key / one (set key, element) pair are issued in batch-creation order (what the engine guarantees via the per-query exclusive lock); different elements of one set may come from batches in any order. H moves the pipeline "
              "only in 'thread runs until it blocks' steps; finer interleavings only in S. Known findings F4/F11 (stale cache fills) are reported as KNOWN-FINDING."),
    ),
    "C10": dict(
        category="exploration",
        technique="stateless model checking: deviation-bounded exhaustive DFS over the schedules of submitter, serializer, committer and notifier threads of the real WriteBehind",
        text=("All submission orders of 3 (thorough: also 4) batches created in one order and filled with overlapping keys through the cache maps, "
              "2-3 submitter threads, 1-3 serializer workers, three grouping policies, also with one batch that carries no write at all, every "
              "schedule with <= 2 (3) deviations; then the write manager is dropped. On the store's commit log: every submitted operation exactly once, batches in creation order across physical "
              "commits, no logical batch split, final content == sequential application, drop returns after the last commit, no deadlock."),
        design_ref="DESIGN.md 4/C10",
        note="Scheduling points: channel operations, lock acquisitions, atomics, store commits; <= d deviations.",
    ),
})

CHECKS.update({
    "C05": dict(
        category="fault_enumeration",
        technique="exhaustive fault-point enumeration on the real engine: the victim future is dropped at every suspension point; every executor activation is made to panic at every read position; plus deviation-bounded schedule exploration of victim + concurrent reader",
        text=("For every scenario (8 programs x in-memory / DbBacked<MemKv> x victim in {query after an edit, whole input session, session with "
              "refresh}) the uncancelled run is measured and the victim is then dropped at its n-th Pending for EVERY n, and at the k-th storage "
              "operation of ANY task for EVERY k (its helper tasks are aborted mid-way); every executor "
              "activation of the run is made to panic before its first read and after each read. After each fault: the drop does not panic, an "
              "executor panic reaches the caller, nothing else panics (process-wide hook + panics swallowed by detached tasks), the same query "
              "again and an edit + query of every node return from-scratch values, the engine shuts down and a new engine on the same store "
              "answers from scratch. S: victim cancelled at every point - and, separately, every executor activation made to panic before its first "
              "read and after each read - while a second task queries the same root, all schedules with <= 1 (2) deviations (a waiter that is "
              "never woken is a deadlock of the execution); cancelled sessions: the guarded rest of the interrupted operation and the commit-on-drop task in every order, <= 2 (3) "
              "deviations. Helpers: executors that hand their reads to spawned helper tasks and return without joining them (the helper closes a "
              "cycle / finishes after the executor returned), all schedules with <= 2 (3) deviations: what is published must account for the helpers."),
        design_ref="DESIGN.md 4/C05",
        note=("Suspension points: storage reads (single-flight loads can suspend), the engine's cooperative yields, lock waits, joins. The insert/remove "
              "futures of the shipped storage engines never suspend and are therefore not cancellation points (with a user-supplied storage engine whose "
              "writes suspend, an active write batch can be dropped: observed, documented in DESIGN.md, not claimed)."),
    ),
    "C06": dict(
        category="exploration",
        technique="exhaustive enumeration of small dependency graphs x explicit-state BFS over histories on the real engine against the literal statement as oracle, plus deviation-bounded schedule exploration of concurrent entry into one SCC",
        text=("Every directed graph on 1-2 nodes (every edge absent / fixed / switched by one of two input bits, every node normal or firewall) and "
              "on 3 nodes with <= 3 (thorough: 4) edges x every history to depth 3 (4) over {set a switching bit, query all nodes in every order, "
              "query one node}; oracle = nodes on a cycle of the input-determined graph evaluate to their cycle default, all others as from scratch "
              "with the defaults substituted; every request completes; graphs with a switched edge are searched from all switches off and from all "
              "switches on. S: 2-3 tasks enter one strongly connected component (2-cycle, 3-cycle through "
              "a firewall, two cycles sharing a node + outside consumer; two cycles through a shared tail whose head reads both branches concurrently "
              "(join_all) or in spawned helper tasks; executors whose helpers outlive them) from different members, all schedules with <= 2 (3) "
              "deviations. A member's excuse 'its read came after the unwinding' (F8) is decided per execution from the callee registrations the "
              "engine had made when it detected the cycle (hook)."),
        design_ref="DESIGN.md 4/C06",
        note="Known findings F8 (cycle membership only along the first cyclic read of each member), F14 (cycles closed through a firewall by an edit) and F18 (a member cancelled together with its join-ing caller is recomputed from the defaults) are reported as KNOWN-FINDING; projections are not placed on cycles.",
    ),
    "C16": dict(
        category="exploration",
        technique="exhaustive enumeration of operation sequences on the real TinyLFU against a reference map with pin set; deviation-bounded schedule exploration of the per-query lock table",
        text=("Every sequence to depth 6 (thorough 7) over {put, get, remove, pin, unpin (+notify), burst of 34 fresh keys} on 2-3 named keys for "
              "capacities 1/2/3/8 and both unpin strategies: pinned keys stay resident with their latest value, unpinned keys have the latest value "
              "or are absent, removed keys are absent, resident entries <= policy capacity + pinned + 33. S: two tasks take the exclusive lock of one "
              "query twice each while a third touches 40-70 other queries on a lock table of capacity 1-2; a witness counter detects two holders. "
              "M: the cache itself from two threads (owner inserts pinned, updates, unpins; the other inserts 36 fresh keys and reads the owner's key), "
              "<= 2 (3) deviations. R: every per-key micro-history of length <= 4 (5) over {put, get, pin, unpin, bare notification, remove, burst} "
              "replicated over 60 keys (key set far larger than the capacity), then every pin released and 102 fresh keys inserted: leaks add up and "
              "break the bound on resident entries."),
        design_ref="DESIGN.md 4/C16",
        note="Piggy-backed maintenance only; the frequency sketch and the intrusive list are exercised through the public API.",
    ),
})

CHECKS.update({
    "C12": dict(
        category="exploration",
        technique="exhaustive enumeration of a constructor-closed type universe x bounded value domains on the real encoder/decoder (every value round-tripped, prefix-freedom and back-to-back decoding checked over all values)",
        text=("Every type of a universe closed under the provided constructors (primitives at every width, char, String, (), Duration, PathBuf, "
              "NonZero*, tuples to arity 4, arrays, Vec/VecDeque/LinkedList/HashMap/HashSet/BTreeMap/BTreeSet, Box/Rc/Arc/Cow/Cell/RefCell/"
              "Wrapping/Reverse, Option/Result/Bound, all range types, Box/Rc/Arc of [T]/str/Path, Cow, PhantomData, every NonZero and atomic width, "
              "DashMap/DashSet, tuples to arity 12, arrays of length 0-4/32/33, generated derived structs and enums with #[serialize(skip)] on every "
              "subset of 1-3 fields) to nesting depth 2 plus depth-3 chains (~870 types + the smallvec/bitvec feature build), and every value of each type's domain (8/16-bit integers and bool exhaustively, wider integers every "
              "value within +-2 of every 7-bit varint and zigzag boundary, chars at UTF-8 length boundaries, containers of length 0-3): "
              "decode(encode v) == v consuming exactly the written bytes; no encoding is a prefix of another value's (all values of a type sorted "
              "by encoding); sliding triples written back to back are read back in sequence. Collections also with 127 / 128 elements (two-byte "
              "length prefix). Interned handles: every structure shape with repeated handles of one and of different types with equal content hash, "
              "decoded with the same and a fresh interner. Thorough: +-32 around every 7-bit boundary, +-2 around every power of two, all sequences of "
              "length <= 3 over four elements."),
        design_ref="DESIGN.md 4/C12",
        note="Container lengths <= 3 (+ selected long ones); the smallvec/bitvec feature build is covered by a second binary (vopt: SmallVec N=0/1/2/4, BitVec over 4 storage widths x 2 bit orders, every bit string to length 10 + boundary lengths to 129); interned handles are covered by C15. Fix F17 (BitVec round trip) is recorded in known_findings.json.",
    ),
    "C13": dict(
        category="exploration",
        technique="exhaustive enumeration of the C12 type/value universe x all construction histories of small unordered collections on the real StableHash impls with a stream-recording hasher; digests compared across 3 processes",
        text=("For every type of the C12 universe with a StableHash impl (~650) and every value: a recording StableHasher captures the byte stream; "
              "over all values of a type sorted by stream no two unequal values feed the same stream (injective framing); every value hashes the "
              "same as its clone, behind Box/Rc/Arc/&, and after a serialization round trip; unordered collections are built by every insertion "
              "order of every subset of <= 4 of 5 elements, with/without reserved capacity, random vs fixed hasher state, with insert+remove in the "
              "history, and must hash identically; String/str/Cow and Vec/slice agree; a digest over all seeded 128-bit hashes is computed in three "
              "separate processes (different environment) and must be identical."),
        design_ref="DESIGN.md 4/C13",
        note="128-bit collisions of SipHash itself are outside the statement; the stream of an unordered collection is modelled as the multiset of its elements' sub-streams (the real combination is commutative by construction and is executed for the equality checks).",
    ),
    "C14": dict(
        category="exploration",
        technique="exhaustive pairwise comparison over a constructor-closed universe of ~5800 types (every hand-written Identifiable impl occurs) and all harness query keys on the real STABLE_TYPE_ID / QueryID computation; digests compared across 3 processes; engine aliasing probe",
        text=("STABLE_TYPE_ID of every type of a constructor-closed universe (71 nullary types, 60 unary constructors over every sized nullary type incl. arrays of length 0-3, slices, "
              "references, raw pointers, smart pointers, cells, ranges, collections, PhantomData, derived generics and the types a set / option / wrapper could be defined as, 7 binary constructors over "
              "all ordered pairs of 8 bases, tuples of every arity 1-16 with one deviating position each, array lengths around 2^8/2^16/2^32, 3-tuples in every order, nestings and re-associations to depth 2) are pairwise distinct; the QueryIDs of "
              "all 1280 harness query keys are pairwise distinct; an engine populated with 5 query types x 40 keys answers each with its own value; "
              "the digest of all ids is identical in three separate processes."),
        design_ref="DESIGN.md 4/C14",
        note="Same binary in three processes (different environment/ASLR); stability across compiler versions or crate versions is outside what can be explored here.",
    ),
    "C15": dict(
        category="exploration",
        technique="stateless model checking: deviation-bounded exhaustive DFS over the schedules of every pair of short thread programs on the real Interner (shuttle runtime, own scheduler), invariant evaluated after every operation; exhaustive enumeration of encoded structure shapes",
        text=("S: every pair of thread programs of length 2 (thorough: length 3 and triples of threads) over {intern A(1|2), intern B(1) (same bytes, other "
              "type), intern_unsized str, get_from_hash, clone, drop oldest handle, vacuum} on one real Interner with 2 shards, every schedule with "
              "<= 2 (3) deviations with scheduling points at every shard lock operation and around handle clone/drop; after EVERY operation the "
              "invariant is evaluated over all live handles of all threads: equal (type, value) => same allocation, content == value, different "
              "types never share, get_from_hash returns a canonical live handle or None. V: every structure shape (lists of 0-3 handles in every "
              "value pattern, optional handle, 0-2 texts, repeats in first/reference order) is encoded and decoded with the same and with a fresh "
              "interner: values, sharing partition, canonicity, consumed bytes. Plus selected pairs of length-3 programs (a value whose handles were "
              "all dropped is interned again while the other thread interns, looks up or vacuums) at <= 3 (4) deviations; thorough: every pair of "
              "length-3 programs at <= 2 deviations (26 million schedules)."),
        design_ref="DESIGN.md 4/C15",
        note="2-3 threads (the statement's 2..16 threads is covered to 3); Arc strong/weak counter operations are scheduling points only at the handle clone/drop granularity (shuttle's Arc is std's).",
    ),
})

CHECKS.update({
    "C11": dict(
        category="exploration",
        technique="exhaustive enumeration on the real RocksDB and Fjall backends against a reference map: whole-universe isolation sweep over ~400 colliding logical cells + every history of batches/abandoned batches/reopen up to the bound on a 16-cell universe",
        text=("Both shipped backends, real databases in scratch directories. SWEEP: ~400 (thorough ~470) logical cells = (wide column, value type, "
              "key) / (set column, key, element) over 13 columns (prefixed/suffixed discriminants of fixed, variable and empty width, discriminants "
              "that are prefixes of one another, unit keys and values, nested keys, raw fixed-width keys, twin columns with identical bytes) with "
              "keys/elements that are empty, prefix/extension related, 0xFF-heavy with same-length neighbours, at the 127/128- and 255/256/257-byte "
              "length boundaries and multi-kilobyte: one cell per batch in forward and reverse order through both write paths, after EVERY write "
              "every point read and every member scan of the universe is compared with the model; every cell deleted and rewritten alone in the "
              "full context; whole-universe batches; delete+put+delete inside one batch; reopen points. HISTORIES: every history of <= 3 "
              "single-operation batches, [2-operation batch, single] and [single, 2-operation batch] (mixed write paths), abandoned batches anywhere, "
              "reopen after every step of <= 2-batch histories (second batch through either write path; also with NOTHING read between the reopen "
              "and the next batch, so that the write is the first to touch its column in the new session), whole universe compared after every step, "
              "touched cells read before every commit."),
        design_ref="DESIGN.md 4/C11",
        note=("Sequential, one handle; atomicity is observed as all-or-nothing visibility of committed / abandoned batches; a crash inside a native commit "
              "(torn write in RocksDB/Fjall) cannot be injected from here and is not explored. Each part runs in a child process: an abort inside a backend is a violation."),
    ),
})

NOT_YET = {
}

def main():
    props = [json.loads(l) for l in open(os.path.join(HERE, "properties.jsonl"))]
    checks = []
    na = []
    for p in props:
        pid = p["id"]
        if pid in CHECKS:
            c = CHECKS[pid]
            checks.append({
                "property_id": pid,
                "quick_cmd": f"./check {pid} --tier quick",
                "thorough_cmd": f"./check {pid} --tier thorough",
                "evidence_file": f"/verif/evidence/{pid}.json",
                "replay_cmd_template": "./check --replay {path}",
                "engine": "vh",
                "level_claimed": {"category": c["category"], "text": c["text"], "design_ref": c["design_ref"]},
                "level_note": c["note"],
                "technique": c["technique"],
            })
        else:
            na.append({"property_id": pid, "reason": NOT_YET.get(pid, "check under construction in this build round (see DESIGN.md section 4 for the planned bounded-exhaustive check); not claimed until it runs green")})
    m = {
        "version": 1,
        "setup_cmd": "cd /verif/harness && CARGO_NET_OFFLINE=true cargo build --release --offline -p vh && CARGO_NET_OFFLINE=true cargo build --release --offline -p vopt && CARGO_NET_OFFLINE=true cargo build --release --offline -p vkv",
        "hooks": {
            "guard": "cargo feature `verif` of crates qbice and qbice_storage (optional dependency qbice_verif_rt)",
            "enable": "harness depends on qbice with default-features=false, features=[\"verif\"]; per-file `#[cfg(feature = \"verif\")] use qbice_verif_rt::{tokio, std, parking_lot, crossbeam_channel};` alias imports",
            "baseline_off_cmd": BASELINE_OFF,
            "source_commits": [l.split()[0] for l in os.popen("git -C /repo log --oneline --grep='^verif hooks' ").read().strip().split("\n") if l],
            "add_only": True,
        },
        "engines": [
            {"name": "vh", "path": "/verif/harness", "serves_properties": sorted(CHECKS.keys()),
             "kind_free_text": "Rust harness: real qbice code on the shuttle runtime under a deviation-bounded DFS scheduler (xplore), program-interpreting queries + from-scratch oracle, in-memory KvDatabase with commit log"},
        ],
        "checks": checks,
        "not_applicable": na,
        "notes": "fix: commits in /repo are listed in /verif/known_findings.json (status fixed).",
    }
    json.dump(m, open(os.path.join(HERE, "MANIFEST.json"), "w"), indent=1)
    print("checks:", [c["property_id"] for c in checks], "na:", len(na))

if __name__ == "__main__":
    main()
