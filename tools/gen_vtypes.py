#!/usr/bin/env python3
"""Generates harness/vt/src/vtypes_gen.rs: the constructor-closed type universes of C12/C13/C14."""
import itertools, os
HERE=os.path.dirname(os.path.dirname(os.path.abspath(__file__)))

BASES_ALL = ["u8","i8","u16","i16","u32","i32","u64","i64","u128","i128","usize","isize","bool","char","f32","f64",
             "String","()","std::time::Duration","std::path::PathBuf","std::num::NonZeroU8","std::num::NonZeroI32",
             "std::num::NonZeroU64","Unit"]
SMALL = ["u8","i16","u32","i64","u128","bool","char","String","()","f64"]
KEYS  = ["u8","i16","u32","String","bool","char"]          # Ord + Hash + Eq
TINY  = ["u8","i64","String","bool"]

def is_key(t): return t in KEYS or (t.startswith("(") and all(x.strip() in KEYS for x in t[1:-1].split(",")))
def copyable(t): return t in ["u8","i8","u16","i16","u32","i32","u64","i64","u128","i128","usize","isize","bool","char","f32","f64","()"]

UN_BOTH = ["Option<{}>","Vec<{}>","Box<{}>","Rc<{}>","Arc<{}>","VecDeque<{}>","LinkedList<{}>","[{};2]","Tup<{}>",
           "std::ops::Range<{}>","std::ops::RangeInclusive<{}>"]
UN_KEY  = ["BTreeSet<{}>","HashSet<{}>"]
UN_SER  = ["std::cell::RefCell<{}>","std::num::Wrapping<{}>","std::cmp::Reverse<{}>","std::ops::Bound<{}>"]
BIN_BOTH= ["({},{})","Result<{},{}>","Pair<{},{}>","Either<{},{}>"]
BIN_KEY = ["BTreeMap<{},{}>","HashMap<{},{}>"]

def universe(ser):
    types=list(BASES_ALL)
    d1=[]
    for b in SMALL:
        for c in UN_BOTH: d1.append(c.format(b))
        if ser:
            for c in UN_SER: d1.append(c.format(b))
            if copyable(b): d1.append(f"std::cell::Cell<{b}>")
        if b in KEYS:
            for c in UN_KEY: d1.append(c.format(b))
    for a in TINY+["u32","char"]:
        for b in TINY:
            for c in BIN_BOTH: d1.append(c.format(a,b))
            if a in KEYS:
                for c in BIN_KEY: d1.append(c.format(a,b))
    if ser: d1.append("std::borrow::Cow<'static, str>")
    d1.append("(u8,i64,String)"); d1.append("(bool,u16,char,String)"); d1.append("[u16;0]")
    types+=d1
    # depth 2: unary over (a subset of) depth 1, binary over mixed
    inner=[t for t in d1 if any(t.startswith(p) for p in ("Option<u8","Option<String","Vec<u8","Vec<String","Vec<i16","(u8,String)","(String,u8)","Result<u8,String","Box<i64","Tup<u8","Either<u8,String","Pair<String,bool","BTreeSet<u8","HashSet<String","HashMap<u8,String","BTreeMap<String,i64","std::ops::Range<u8","[u8;2]","VecDeque<i16","LinkedList<String","Option<f64","Vec<f64","Option<()>","Vec<()>","Vec<bool"))]
    d2=[]
    for t in inner:
        for c in ["Option<{}>","Vec<{}>","Box<{}>","Arc<{}>","VecDeque<{}>","[{};2]","Tup<{}>"]:
            d2.append(c.format(t))
        for c in ["({},u8)","(String,{})","Result<{},u8>","Either<bool,{}>","Pair<{},String>","HashMap<u8,{}>","BTreeMap<String,{}>"]:
            d2.append(c.format(t))
    types+=d2
    # depth 3: selected chains
    chains=["Option<Vec<Option<u8>>>","Vec<Vec<Vec<u8>>>","Vec<Option<(u8,String)>>","HashMap<u8,Vec<Option<String>>>",
            "BTreeMap<String,Either<u8,Vec<i64>>>","Option<Box<Pair<Vec<u8>,Option<String>>>>","Result<Vec<(u8,bool)>,Option<String>>",
            "Vec<Tup<Option<i64>>>","(Vec<Option<u8>>,Either<String,Vec<bool>>)","Arc<Vec<Rc<String>>>","Vec<[Option<u8>;2]>",
            "Option<HashSet<String>>","Vec<BTreeSet<u8>>","Either<Vec<Vec<u8>>,Option<Option<String>>>","Pair<Option<Vec<u16>>,Vec<Option<u16>>>",
            "Vec<Result<Option<u8>,String>>","Option<Option<Option<u8>>>","Vec<Vec<()>>","Vec<Option<()>>","(Vec<u8>,Vec<u8>)","(String,String)","Vec<(String,String)>"]
    types+=chains
    seen=set(); out=[]
    for t in types:
        if t not in seen: seen.add(t); out.append(t)
    return out

def ident_universe():
    """every hand-written Identifiable impl of crates/stable_type_id occurs: all nullary types, every unary
    constructor over every sized nullary type (where the constructor's bounds allow it), every binary
    constructor over a small base, tuples of every arity 1..16 (with one deviating position each), and the
    pairs of types a "define one in terms of the other" refactor would equate (HashSet<T,S> / HashMap<T,(),S>,
    BTreeSet<T> / BTreeMap<T,()>, Option<T> / Result<T,()>, (T,) / [T;1] / T, ...)"""
    prim=["u8","i8","u16","i16","u32","i32","u64","i64","u128","i128","usize","isize","bool","char","f32","f64"]
    nonzero=["std::num::NonZero"+w for w in ("U8","U16","U32","U64","U128","Usize","I8","I16","I32","I64","I128","Isize")]
    atomic=["std::sync::atomic::Atomic"+w for w in ("Bool","I8","I16","I32","I64","Isize","U8","U16","U32","U64","Usize")]
    other=["String","()","std::time::Duration","std::time::Instant","std::time::SystemTime","std::path::PathBuf","Unit",
           "std::ffi::OsString","std::ffi::CString","std::cmp::Ordering","std::sync::atomic::Ordering","std::convert::Infallible",
           "std::hash::RandomState","std::hash::DefaultHasher","std::any::TypeId","std::marker::PhantomPinned","std::io::Error",
           "std::io::ErrorKind","std::fmt::Error","std::alloc::Layout","std::alloc::LayoutError","std::net::IpAddr","std::net::Ipv4Addr",
           "std::net::Ipv6Addr","std::net::SocketAddr","std::net::SocketAddrV4","std::net::SocketAddrV6","std::ops::RangeFull"]
    unsized_=["str","std::path::Path","std::ffi::OsStr","std::ffi::CStr"]
    sized=prim+nonzero+atomic+other
    base=sized+unsized_
    un=["Option<{}>","Vec<{}>","Box<{}>","Rc<{}>","Arc<{}>","[{};0]","[{};1]","[{};2]","[{};3]","[{}]","({},)","std::cell::Cell<{}>","std::cell::RefCell<{}>",
        "std::ops::Range<{}>","std::ops::RangeInclusive<{}>","std::ops::RangeFrom<{}>","std::ops::RangeTo<{}>","std::ops::Bound<{}>","std::num::Wrapping<{}>",
        "BTreeSet<{}>","VecDeque<{}>","LinkedList<{}>","std::collections::BinaryHeap<{}>","std::marker::PhantomData<{}>","&'static {}","*const {}","*mut {}",
        "std::sync::Mutex<{}>","std::sync::RwLock<{}>","std::sync::Weak<{}>","std::rc::Weak<{}>","std::mem::ManuallyDrop<{}>","Tup<{}>","std::pin::Pin<Box<{}>>",
        # the rest of the hand-written impls
        "std::cell::UnsafeCell<{}>","std::cell::OnceCell<{}>","std::sync::OnceLock<{}>","std::mem::MaybeUninit<{}>","std::ptr::NonNull<{}>","&'static mut {}",
        "std::num::Saturating<{}>","std::sync::atomic::AtomicPtr<{}>","std::ops::RangeToInclusive<{}>","std::hash::BuildHasherDefault<{}>",
        "HashSet<{},std::hash::RandomState>","HashSet<{},std::hash::BuildHasherDefault<std::hash::DefaultHasher>>","std::pin::Pin<&'static {}>",
        "std::pin::Pin<Rc<{}>>","std::pin::Pin<Arc<{}>>",
        # what a set / option / wrapper could be "defined as"
        "HashMap<{},(),std::hash::RandomState>","HashMap<{},(),std::hash::BuildHasherDefault<std::hash::DefaultHasher>>","BTreeMap<{},()>",
        "Result<{},()>","Result<(),{}>","Result<{},std::convert::Infallible>","Box<[{}]>","Rc<[{}]>","Arc<[{}]>","Vec<[{};1]>","Option<({},)>"]
    unsized_ok=["Box<{}>","Rc<{}>","Arc<{}>","&'static {}","*const {}","*mut {}","&'static mut {}","std::ptr::NonNull<{}>","std::sync::Weak<{}>","std::rc::Weak<{}>",
                "std::cell::RefCell<{}>","std::cell::Cell<{}>","std::cell::UnsafeCell<{}>","std::sync::Mutex<{}>","std::sync::RwLock<{}>",
                "std::marker::PhantomData<{}>","std::mem::ManuallyDrop<{}>","std::pin::Pin<Box<{}>>","std::pin::Pin<&'static {}>"]
    bin_=["({},{})","Result<{},{}>","Pair<{},{}>","Either<{},{}>","BTreeMap<{},{}>","HashMap<{},{},std::hash::RandomState>",
          "HashMap<{},{},std::hash::BuildHasherDefault<std::hash::DefaultHasher>>"]
    t=list(base)
    for b in sized:
        for c in un: t.append(c.format(b))
    for b in unsized_:
        for c in unsized_ok: t.append(c.format(b))
    # Cow needs ToOwned with an identifiable owner
    for b in prim+["String","()","std::time::Duration","std::path::PathBuf","Unit","str","std::path::Path","std::ffi::OsStr","std::ffi::CStr","[u8]","[String]"]:
        t.append("std::borrow::Cow<'static,%s>"%b)
    small=["u8","i8","u16","String","bool","()","Unit","char"]
    for a in small:
        for b in small:
            for c in bin_: t.append(c.format(a,b))
    for a,b,c in itertools.permutations(["u8","u16","String"],3): t.append(f"({a},{b},{c})")
    t += ["(u8,u8,u8)","(u8,u8)","(u8,u8,u8,u8)","((u8,u8),u8)","(u8,(u8,u8))","((u8,),u8)","(u8,(u8,))"]
    # tuples of every implemented arity; one deviating element at every position
    for n in range(1,17):
        tail = ",)" if n==1 else ")"   # "(u8,u8,)" would be a second spelling of "(u8,u8)"
        t.append("("+",".join(["u8"]*n)+tail)
        for i in range(n):
            e=["u8"]*n; e[i]="u16"; t.append("("+",".join(e)+tail)
    # arrays: lengths that differ in one byte / one bit, and lengths >= 2^8, 2^16, 2^32
    for n in (4,5,7,8,15,16,255,256,257,65535,65536,4294967296,4294967297):
        t.append(f"[u8;{n}]"); t.append(f"[();{n}]")
    # depth 2: unary(unary(b)), unary(binary)
    for b in ["u8","String","bool"]:
        for c1 in un[:24]+un[34:47]:
            for c2 in ["Option<{}>","Vec<{}>","Box<{}>","[{};2]","std::ops::Range<{}>","Tup<{}>","std::cell::Cell<{}>","HashSet<{},std::hash::RandomState>"]:
                t.append(c1.format(c2.format(b)))
    for c in bin_:
        for c1 in ["Option<{}>","Vec<{}>","[{};2]"]:
            t.append(c1.format(c.format("u8","String"))); t.append(c1.format(c.format("String","u8")))
            t.append(c.format(c1.format("u8"),"String")); t.append(c.format("u8",c1.format("String"))); t.append(c.format(c1.format("String"),"u8"))
    # nestings that differ only in association / order
    t += ["Pair<Pair<u8,u16>,String>","Pair<u8,Pair<u16,String>>","Either<Either<u8,u16>,String>","Either<u8,Either<u16,String>>",
          "Pair<Either<u8,u16>,String>","Either<Pair<u8,u16>,String>","Option<Vec<u8>>","Vec<Option<u8>>","Option<Option<u8>>","Vec<Vec<u8>>",
          "[[u8;2];3]","[[u8;3];2]","[u8;6]","Result<Result<u8,u16>,String>","Result<u8,Result<u16,String>>",
          "HashMap<u8,HashMap<u16,String,std::hash::RandomState>,std::hash::RandomState>","HashMap<HashMap<u8,u16,std::hash::RandomState>,String,std::hash::RandomState>",
          "HashSet<HashSet<u8,std::hash::RandomState>,std::hash::RandomState>","HashSet<(u8,()),std::hash::RandomState>",
          "std::hash::BuildHasherDefault<std::hash::BuildHasherDefault<std::hash::DefaultHasher>>"]
    seen=set(); out=[]
    for x in t:
        if x not in seen: seen.add(x); out.append(x)
    return out


DERIVES_SER = "#[derive(Debug, Clone, PartialEq, Encode, Decode)]"
DERIVES_ALL = "#[derive(Debug, Clone, PartialEq, Encode, Decode, StableHash, qbice::Identifiable)]"
G = ["A","B","C"]

def shapes():
    """derived shapes: named / tuple structs with 1-3 fields and enums whose variants carry 1-3 fields,
    with #[serialize(skip)] on every subset of the fields"""
    code=[]; names_ser=[]; names_hash=[]
    for kind in ("N","T"):
        for n in (1,2,3):
            gs=G[:n]
            for mask in range(1<<n):
                name=f"S{kind}{n}m{mask}"
                der = DERIVES_ALL if mask==0 else DERIVES_SER
                fields=[]
                for i,g in enumerate(gs):
                    attr="#[serialize(skip)] " if mask>>i&1 else ""
                    fields.append(f"{attr}pub f{i}: {g}" if kind=="N" else f"{attr}pub {g}")
                body = "{ "+", ".join(fields)+" }" if kind=="N" else "("+", ".join(fields)+");"
                code.append(f"{der}\npub struct {name}<{', '.join(g+': Default' for g in gs)}> {body}\n")
                acc = (lambda i: f"f{i}") if kind=="N" else (lambda i: f"{i}")
                bounds=", ".join(f"{g}: Uni + Default" for g in gs)
                loops="".join(f"for x{i} in take::<{g}>(3) {{ " for i,g in enumerate(gs))
                ctor = (name+" { "+", ".join(f"f{i}: x{i}.clone()" for i in range(n))+" }") if kind=="N" else (name+"("+", ".join(f"x{i}.clone()" for i in range(n))+")")
                eq=" && ".join([f"self.{acc(i)}.eqv(&o.{acc(i)})" for i in range(n) if not mask>>i&1] or ["true"])
                ok=" && ".join([ (f"self.{acc(i)}.eqv(&<{gs[i]}>::default())" if mask>>i&1 else f"self.{acc(i)}.decoded_ok()") for i in range(n)])
                code.append(f"impl<{bounds}> Uni for {name}<{', '.join(gs)}> {{\n"
                            f"    fn vals() -> Vec<Self> {{ let mut v = Vec::new(); {loops}v.push({ctor}); {'}'*n} v }}\n"
                            f"    fn eqv(&self, o: &Self) -> bool {{ {eq} }}\n"
                            f"    fn decoded_ok(&self) -> bool {{ {ok} }}\n}}\n")
                for inst in (["u16","String","Vec<u8>"],["String","u8","Option<u8>"],["Vec<u8>","Vec<u8>","u16"]):
                    t=f"{name}<{', '.join(inst[:n])}>"
                    names_ser.append(t)
                    if mask==0: names_hash.append(t)
    # enums: one variant per (arity, mask), tuple-like and struct-like, plus unit variants in between
    for kind in ("N","T"):
        for skipping in (False, True):
            name=f"E{kind}{'s' if skipping else ''}"
            der = DERIVES_SER if skipping else DERIVES_ALL
            variants=[]; arms_vals=[]; arms_eq=[]; arms_ok=[]
            vi=0
            for n in (1,2,3):
                for mask in (range(1<<n) if skipping else [0]):
                    v=f"V{n}m{mask}"
                    fields=[]
                    for i in range(n):
                        attr="#[serialize(skip)] " if mask>>i&1 else ""
                        fields.append(f"{attr}f{i}: {G[i]}" if kind=="N" else f"{attr}{G[i]}")
                    variants.append(f"{v} {{ {', '.join(fields)} }}" if kind=="N" else f"{v}({', '.join(fields)})")
                    pat_a = (f"{name}::{v} {{ "+", ".join(f"f{i}: a{i}" for i in range(n))+" }") if kind=="N" else (f"{name}::{v}("+", ".join(f"a{i}" for i in range(n))+")")
                    pat_b = pat_a.replace("a0","b0").replace("a1","b1").replace("a2","b2")
                    ctor = (f"{name}::{v} {{ "+", ".join(f"f{i}: x{i}.clone()" for i in range(n))+" }") if kind=="N" else (f"{name}::{v}("+", ".join(f"x{i}.clone()" for i in range(n))+")")
                    loops="".join(f"for x{i} in take::<{G[i]}>(2) {{ " for i in range(n))
                    arms_vals.append(f"{loops}v.push({ctor}); {'}'*n}")
                    eq=" && ".join([f"a{i}.eqv(b{i})" for i in range(n) if not mask>>i&1] or ["true"])
                    unused="".join(f" let _ = (a{i}, b{i});" for i in range(n) if mask>>i&1)
                    arms_eq.append(f"({pat_a}, {pat_b}) => {{{unused} {eq} }}")
                    ok=" && ".join([(f"a{i}.eqv(&<{G[i]}>::default())" if mask>>i&1 else f"a{i}.decoded_ok()") for i in range(n)])
                    arms_ok.append(f"{pat_a} => {ok},")
                if n==2: variants.append("U0")
            variants.append("U1")
            # twins: variants with exactly the field types of V1m0 / V2m0 (only the discriminant tells them apart)
            for (tw, n) in (("W1",1),("W2",2)):
                fields=[(f"g{i}: {G[i]}" if kind=="N" else f"{G[i]}") for i in range(n)]
                variants.append(f"{tw} {{ {', '.join(fields)} }}" if kind=="N" else f"{tw}({', '.join(fields)})")
                pat_a = (f"{name}::{tw} {{ "+", ".join(f"g{i}: a{i}" for i in range(n))+" }") if kind=="N" else (f"{name}::{tw}("+", ".join(f"a{i}" for i in range(n))+")")
                pat_b = pat_a.replace("a0","b0").replace("a1","b1")
                ctor = (f"{name}::{tw} {{ "+", ".join(f"g{i}: x{i}.clone()" for i in range(n))+" }") if kind=="N" else (f"{name}::{tw}("+", ".join(f"x{i}.clone()" for i in range(n))+")")
                loops="".join(f"for x{i} in take::<{G[i]}>(2) {{ " for i in range(n))
                arms_vals.append(f"{loops}v.push({ctor}); {'}'*n}")
                eq=" && ".join(f"a{i}.eqv(b{i})" for i in range(n))
                arms_eq.append(f"({pat_a}, {pat_b}) => {{ {eq} }}")
                ok=" && ".join(f"a{i}.decoded_ok()" for i in range(n))
                arms_ok.append(f"{pat_a} => {ok},")
            code.append(f"{der}\npub enum {name}<A: Default, B: Default, C: Default> {{ {', '.join(variants)} }}\n")
            code.append(f"impl<A: Uni + Default, B: Uni + Default, C: Uni + Default> Uni for {name}<A, B, C> {{\n"
                        f"    fn vals() -> Vec<Self> {{ let mut v = vec![{name}::U0, {name}::U1]; {' '.join(arms_vals)} v }}\n"
                        f"    fn eqv(&self, o: &Self) -> bool {{ match (self, o) {{ ({name}::U0, {name}::U0) | ({name}::U1, {name}::U1) => true, {' '.join(a+',' for a in arms_eq)} _ => false }} }}\n"
                        f"    fn decoded_ok(&self) -> bool {{ match self {{ {name}::U0 | {name}::U1 => true, {' '.join(arms_ok)} }} }}\n}}\n")
            for inst in (["u16","String","Vec<u8>"],["String","u8","Option<u8>"]):
                t=f"{name}<{', '.join(inst)}>"
                names_ser.append(t)
                if not skipping: names_hash.append(t)
    # nested uses (self-delimiting inside containers)
    names_ser += ["Vec<ST2m1<u8,String>>","Option<SN3m5<u16,String,Vec<u8>>>","(ST3m2<u8,String,u16>,u8)","Vec<ETs<u8,String,u16>>","HashMap<u8,ENs<u8,String,u16>>",
                  "VecDeque<VecDeque<u8>>","Vec<VecDeque<String>>","Option<VecDeque<u16>>","(VecDeque<u8>,VecDeque<u8>)","HashMap<u8,VecDeque<u8>>","BTreeMap<u8,HashSet<u8>>","Vec<HashSet<String>>"]
    names_hash += ["VecDeque<VecDeque<u8>>","Vec<VecDeque<String>>","Option<VecDeque<u16>>","(VecDeque<u8>,VecDeque<u8>)","HashMap<u8,VecDeque<u8>>","BTreeMap<u8,HashSet<u8>>","Vec<HashSet<String>>",
                   "Vec<ST2m0<u8,String>>","Option<EN<u8,String,u16>>"]
    return "\n".join(code), names_ser, names_hash


EXTRA_BOTH = ["Box<[u8]>","Box<[String]>","Rc<[u16]>","Arc<[Option<u8>]>","Box<str>","Rc<str>","Arc<str>",
    "Box<std::path::Path>","Rc<std::path::Path>","Arc<std::path::Path>",
    "std::borrow::Cow<'static, [u8]>","std::borrow::Cow<'static, [String]>","std::borrow::Cow<'static, std::path::Path>",
    "std::marker::PhantomData<u8>","std::marker::PhantomData<String>",
    "std::num::NonZeroU16","std::num::NonZeroU32","std::num::NonZeroU128","std::num::NonZeroUsize","std::num::NonZeroI8",
    "std::num::NonZeroI16","std::num::NonZeroI64","std::num::NonZeroI128","std::num::NonZeroIsize",
    "std::ops::RangeFrom<u8>","std::ops::RangeFrom<String>","std::ops::RangeTo<i64>","std::ops::RangeToInclusive<u16>","std::ops::RangeFull",
    "[u8;1]","[u8;3]","[String;3]","[u8;4]","[u8;32]","[u8;33]","[Option<u8>;3]","[[u8;2];3]","[Vec<u8>;3]",
    "(u8,u16,String,bool,i64)","(u8,u16,String,bool,i64,u32)","(u8,u16,String,bool,i64,u32,char)","(u8,u16,String,bool,i64,u32,char,Option<u8>)",
    "(u8,u16,String,bool,i64,u32,char,Option<u8>,Vec<u8>)","(u8,u16,String,bool,i64,u32,char,Option<u8>,Vec<u8>,())",
    "(u8,u16,String,bool,i64,u32,char,Option<u8>,Vec<u8>,(),i8)","(u8,u16,String,bool,i64,u32,char,Option<u8>,Vec<u8>,(),i8,u64)",
    "(u8,u8,u8,u8,u8,u8,u8,u8,u8,u8,u8,u8)","(String,String,String,String,String)",
    "Vec<(u8,u16,String,bool,i64)>","Vec<Box<str>>","Option<Arc<[u8]>>","HashMap<u8,Arc<str>>","Vec<std::ops::RangeFrom<u8>>","Option<std::ops::RangeFull>",
    "Vec<std::marker::PhantomData<u8>>","(std::marker::PhantomData<u8>,u8)","Vec<[u8;3]>","Box<[Box<[u8]>]>"]
EXTRA_SER = ["dashmap::DashMap<u8,String>","dashmap::DashMap<String,Vec<u8>>","dashmap::DashSet<u8>","dashmap::DashSet<String>","Vec<dashmap::DashSet<u8>>"]
EXTRA_HASH_ONLY = ["BinaryHeap<u8>","BinaryHeap<String>","BinaryHeap<(u8,String)>","Vec<BinaryHeap<u8>>"]

def main():
    ser=universe(True); hsh=universe(False)
    shape_src, s_ser, s_hash = shapes()
    ser += s_ser; hsh += s_hash
    ser += EXTRA_BOTH + EXTRA_SER; hsh += [t for t in EXTRA_BOTH if "Cow<'static" not in t]
    ids=ident_universe()
    with open(os.path.join(HERE,"harness/vt/src/vtypes_gen.rs"),"w") as f:
        f.write("//! GENERATED by tools/gen_vtypes.py — do not edit.\n#![allow(unused_imports, clippy::all)]\n")
        f.write("use std::{collections::*, rc::Rc, sync::Arc};\nuse crate::vshape::*;\nuse qbice::Identifiable;\n\n")
        f.write("use qbice::{Decode, Encode, StableHash};\n"+shape_src+"\n")
        f.write("/// the `part`-th of `parts` slices of the type list\npub fn run_ser(ctx: &mut Ctx, part: usize, parts: usize) {\n")
        import json as _j
        for i,t in enumerate(ser): f.write(f"    if {i} % parts == part {{ check_ser::<{t}>(ctx, {_j.dumps(t)}); }}\n")
        f.write("    if part == 0 { check_atomics(ctx, true); }\n")
        f.write("}\n\npub fn run_hash(ctx: &mut Ctx, part: usize, parts: usize) {\n")
        for t in EXTRA_HASH_ONLY: f.write(f"    if part == 0 {{ check_hash_only::<{t}>(ctx, {_j.dumps(t)}); }}\n")
        f.write("    if part == 0 { check_atomics(ctx, false); check_os_strings(ctx); }\n")
        for i,t in enumerate(hsh): f.write(f"    if {i} % parts == part {{ check_hash::<{t}>(ctx, {_j.dumps(t)}); }}\n")
        f.write("}\n\npub fn type_ids() -> Vec<(&'static str, u128)> {\n    vec![\n")
        for t in ids: f.write(f"        ({_j.dumps(t)}, <{t} as Identifiable>::STABLE_TYPE_ID.as_u128()),\n")
        f.write("    ]\n}\n")
    print("ser types",len(ser),"hash types",len(hsh),"id types",len(ids))
main()
