#!/bin/bash
# usage: run_seeded.sh [tier] [dir...]   — applies every seeded change to /repo in turn, runs the
# check of the property it breaks, records whether it was caught, and reverts /repo.
set -u
TIER=${1:-quick}; shift || true
cd /verif
DIRS=${@:-seeded/*/}
if ! git -C /repo diff --quiet; then echo "/repo has uncommitted changes"; exit 2; fi
for d in $DIRS; do
  d=${d%/}
  prop=$(python3 -c "import json;print(json.load(open('$d/meta.json'))['property'])")
  git -C /repo apply /verif/$d/patch.diff || { echo "$d: patch does not apply"; continue; }
  out=$(./check $prop --tier $TIER 2>&1); rc=$?
  git -C /repo checkout -- .
  caught=$([ $rc -eq 1 ] && echo true || echo false)
  echo "$d property=$prop tier=$TIER exit=$rc caught=$caught"
  python3 - "$d" "$TIER" "$rc" "$caught" <<PY
import json,sys
d,tier,rc,caught=sys.argv[1:5]
p=f"{d}/detect.json"
try: r=json.load(open(p))
except Exception: r={}
r[tier]={"exit":int(rc),"caught":caught=="true"}
json.dump(r,open(p,"w"),indent=1)
PY
  echo "$out" | grep -E "^VIOLATION" | head -2
done
rm -f replays/*.json
