#!/bin/bash
# usage: run_seeded.sh [tier] [dir...]   — applies every seeded change to /repo in turn, runs the
# check of the property it breaks, records whether it was caught, and reverts /repo.
set -u
TIER=${1:-quick}; shift || true
cd /verif
DIRS=${@:-seeded/*/}
if ! git -C /repo diff --quiet; then echo "/repo has uncommitted changes"; exit 2; fi
for d in $DIRS; do
  d=${d%/}
  prop=$(python3 -c "import json;m=json.load(open('$d/meta.json'));print(' '.join([m['property']]+m.get('also_check',[])))")
  git -C /repo apply /verif/$d/patch.diff || { echo "$d: patch does not apply"; continue; }
  rc=0; out=""; by=""
  for pr in $prop; do
    o=$(./check $pr --tier $TIER 2>&1); r=$?
    out="$out$o"
    if [ $r -eq 1 ]; then by="$by $pr"; fi
    if [ "$pr" = "${prop%% *}" ]; then rc=$r; fi
  done
  git -C /repo checkout -- .
  caught=$([ -n "$by" ] && echo true || echo false)
  echo "$d property=${prop%% *} tier=$TIER exit=$rc caught=$caught by=[$by ]"
  python3 - "$d" "$TIER" "$rc" "$caught" "$by" <<PY
import json,sys
d,tier,rc,caught=sys.argv[1:5]
by=sys.argv[5].split() if len(sys.argv)>5 else []
p=f"{d}/detect.json"
try: r=json.load(open(p))
except Exception: r={}
r[tier]={"exit":int(rc),"caught":caught=="true","caught_by":by}
json.dump(r,open(p,"w"),indent=1)
PY
  echo "$out" | grep -E "^VIOLATION" | head -2
done
rm -f replays/*.json
